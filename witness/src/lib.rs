//! E2 — type-level witnesses.  Each `compile_fail,E0xxx` doctest has a compiling twin that differs only
//! in the offending line, so a witness whose path is merely wrong cannot pass.  Run with
//! `cargo +nightly test --doc --offline` (stable ignores the error code).  Nothing here runs clap.

/// R4.2 — `value_parser!(u8)` is the ranged i64 parser narrowed to `u8` (twin).
/// ```no_run
/// let _p: clap::builder::RangedI64ValueParser<u8> = clap::value_parser!(u8);
/// let _q: clap::builder::RangedU64ValueParser<u64> = clap::value_parser!(u64);
/// let _r: clap::builder::RangedI64ValueParser<i32> = clap::value_parser!(i32);
/// ```
/// ... and not to any other width:
/// ```compile_fail,E0308
/// let _p: clap::builder::RangedI64ValueParser<u16> = clap::value_parser!(u8);
/// ```
/// ```compile_fail,E0308
/// let _q: clap::builder::RangedI64ValueParser<u64> = clap::value_parser!(u64);
/// ```
pub struct R4_2FactoryTable;

/// R4.1 — the ranged parser's target type must be reachable from i64 by a *checked* conversion
/// (`TryFrom<i64>`); a type without it cannot be parsed by the ranged parser (twin first).
/// ```no_run
/// use clap::builder::TypedValueParser;
/// fn needs_parser<P: TypedValueParser>(_: P) {}
/// needs_parser(clap::builder::RangedI64ValueParser::<u8>::new());
/// ```
/// ```compile_fail,E0277
/// use clap::builder::TypedValueParser;
/// fn needs_parser<P: TypedValueParser>(_: P) {}
/// needs_parser(clap::builder::RangedI64ValueParser::<f32>::new());
/// ```
pub struct R4_1CheckedNarrowing;

/// R13.2 — `OsStrExt` is sealed: it can be used (twin) but not implemented outside clap_lex.
/// ```no_run
/// use clap_lex::OsStrExt as _;
/// assert!(std::ffi::OsStr::new("--x").starts_with("--"));
/// ```
/// ```compile_fail,E0277
/// struct Mine;
/// impl clap_lex::OsStrExt for Mine {
///     fn try_str(&self) -> Result<&str, std::str::Utf8Error> { unimplemented!() }
///     fn contains(&self, _: &str) -> bool { unimplemented!() }
///     fn find(&self, _: &str) -> Option<usize> { unimplemented!() }
///     fn strip_prefix(&self, _: &str) -> Option<&std::ffi::OsStr> { unimplemented!() }
///     fn starts_with(&self, _: &str) -> bool { unimplemented!() }
///     fn split<'s, 'n>(&'s self, _: &'n str) -> clap_lex::ext::Split<'s, 'n> { unimplemented!() }
///     fn split_once(&self, _: &str) -> Option<(&std::ffi::OsStr, &std::ffi::OsStr)> { unimplemented!() }
/// }
/// ```
pub struct R13_2Sealed;

/// R13.2 — the unsafe splitter is not nameable from outside (twin: the safe API is).
/// ```no_run
/// let raw = clap_lex::RawArgs::new(["bin", "-ab"]);
/// let mut c = raw.cursor();
/// let _ = raw.next(&mut c);
/// ```
/// ```compile_fail,E0603
/// let _ = unsafe { clap_lex::ext::split_at(std::ffi::OsStr::new("ab"), 1) };
/// ```
pub struct R13_2SplitAtPrivate;

/// R14.1 — the cursor index cannot be written from outside clap_lex (twin: obtained from `RawArgs::cursor`).
/// ```no_run
/// let raw = clap_lex::RawArgs::new(["bin"]);
/// let _c: clap_lex::ArgCursor = raw.cursor();
/// ```
/// ```compile_fail,E0451
/// let _c = clap_lex::ArgCursor { cursor: 7 };
/// ```
/// ```compile_fail,E0616
/// let raw = clap_lex::RawArgs::new(["bin"]);
/// let mut c = raw.cursor();
/// c.cursor = 7;
/// ```
pub struct R14_1CursorPrivate;
