#[test]
fn fish_possible_value_help_in_double_quotes() {
    let mut cmd = clap::Command::new("p").arg(
        clap::Arg::new("mode").long("mode").value_parser([
            clap::builder::PossibleValue::new("fast").help("say \"hi\"; echo $HOME (injected)"),
        ]),
    );
    let mut buf = Vec::new();
    clap_complete::generate(clap_complete::shells::Fish, &mut cmd, "p", &mut buf);
    let s = String::from_utf8(buf).unwrap();
    for l in s.lines().filter(|l| l.contains("fast")) { println!("FISH: {l}"); }
    // the help text is inside a double-quoted fish string: an unescaped `"` closes it, `$HOME` expands
    assert!(!s.contains("say \"hi\""), "double quote of the description is emitted unescaped inside a double-quoted string");
}
