// F13 (C09 R9.5b, C01): nested short flag subcommands in separate clusters.
// Before the fix `prog -Sy -Rp` panics in debug builds ("tracking of `flag_subcmd_skip` is off") and drops `-p` in release.
use clap::{Arg, ArgAction, Command};

fn cmd() -> Command {
    Command::new("prog").subcommand(
        Command::new("sync")
            .short_flag('S')
            .arg(Arg::new("refresh").short('y').action(ArgAction::SetTrue))
            .subcommand(
                Command::new("remove")
                    .short_flag('R')
                    .arg(Arg::new("print").short('p').action(ArgAction::SetTrue)),
            ),
    )
}

#[test]
fn separate_clusters_nested_flag_subcommands() {
    let m = cmd().try_get_matches_from(["prog", "-Sy", "-Rp"]).expect("valid line");
    let (n1, s1) = m.subcommand().unwrap();
    assert_eq!(n1, "sync");
    assert!(s1.get_flag("refresh"));
    let (n2, s2) = s1.subcommand().unwrap();
    assert_eq!(n2, "remove");
    assert!(s2.get_flag("print"));
}

#[test]
fn one_cluster_reference() {
    let m = cmd().try_get_matches_from(["prog", "-SyRp"]).expect("valid line");
    let (_, s1) = m.subcommand().unwrap();
    assert!(s1.get_flag("refresh"));
    let (_, s2) = s1.subcommand().unwrap();
    assert!(s2.get_flag("print"));
}
