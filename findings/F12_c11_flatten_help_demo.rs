use clap::{Arg, ArgAction, Command};

fn cmd() -> Command {
    Command::new("prog")
        .flatten_help(true)
        .arg(Arg::new("v").short('v').action(ArgAction::SetTrue))
        .subcommand(
            Command::new("sub")
                .flatten_help(true)
                .arg(Arg::new("x").long("x").action(ArgAction::Set))
                .subcommand(Command::new("leaf").arg(Arg::new("y").long("y").action(ArgAction::Set)))
                .subcommand(Command::new("twig")),
        )
}

fn help_of(c: &mut Command) -> String {
    c.try_get_matches_from_mut(["prog", "--help"]).unwrap_err().render().to_string()
}

#[test]
fn fresh_and_reused_render_the_same_help() {
    let mut fresh = cmd();
    let fresh_help = help_of(&mut fresh);
    let mut reused = cmd();
    reused.try_get_matches_from_mut(["prog", "sub", "leaf", "--y", "1"]).unwrap();
    let reused_help = help_of(&mut reused);
    assert_eq!(fresh_help, reused_help);
}
