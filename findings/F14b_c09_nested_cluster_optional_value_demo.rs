use clap::{Arg, ArgAction, Command};

fn cmd() -> Command {
    Command::new("pacman")
        .subcommand(
            Command::new("sync")
                .short_flag('S')
                .arg(Arg::new("m").short('m').action(ArgAction::SetTrue))
                .arg(
                    Arg::new("n")
                        .short('n')
                        .num_args(0..=1)
                        .require_equals(true)
                        .default_missing_value("x"),
                )
                .subcommand(
                    Command::new("remove")
                        .short_flag('R')
                        .arg(Arg::new("b").short('b').action(ArgAction::SetTrue)),
                ),
        )
}

#[test]
fn nested_cluster_with_optional_value_option() {
    let r = std::panic::catch_unwind(|| cmd().try_get_matches_from(["pacman", "-SmnRb"]));
    match r {
        Ok(res) => {
            let m = res.expect("valid line");
            let (_, s) = m.subcommand().unwrap();
            assert!(s.get_flag("m"));
            assert_eq!(s.get_one::<String>("n").map(|s| s.as_str()), Some("x"));
            let (name, r) = s.subcommand().unwrap();
            assert_eq!(name, "remove");
            assert!(r.get_flag("b"));
        }
        Err(_) => panic!("parser panicked"),
    }
}
