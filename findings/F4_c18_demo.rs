#![cfg(feature = "unstable-dynamic")]
use std::ffi::OsString;
#[test]
fn opt_then_unknown_long_with_hyphen_positional() {
    let mut cmd = clap::Command::new("p")
        .arg(clap::Arg::new("opt").long("opt").action(clap::ArgAction::Set))
        .arg(clap::Arg::new("pos").allow_hyphen_values(true).num_args(1..));
    let args: Vec<OsString> = ["p", "--opt", "--unknown", ""].iter().map(OsString::from).collect();
    let r = clap_complete::engine::complete(&mut cmd, args, 3, None);
    assert!(r.is_ok());
    let args: Vec<OsString> = ["p", "--opt", "-u", ""].iter().map(OsString::from).collect();
    let r = clap_complete::engine::complete(&mut cmd, args, 3, None);
    assert!(r.is_ok());
}
