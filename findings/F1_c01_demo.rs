use clap::{Arg, ArgAction, ArgGroup, Command};
#[test]
fn subcommand_conflict_with_group_member_and_flag_subcommand() {
    let cmd = Command::new("p")
        .args_conflicts_with_subcommands(true)
        .arg(Arg::new("f").long("f").action(ArgAction::SetTrue))
        .group(ArgGroup::new("g").arg("f"))
        .subcommand(Command::new("sub").long_flag("sub"));
    let r = cmd.try_get_matches_from(["p", "--f", "--sub"]);
    assert!(r.is_err());
    let e = r.unwrap_err();
    assert_eq!(e.kind(), clap::error::ErrorKind::ArgumentConflict);
    let _ = e.render().to_string();
}
