#[test]
fn hidden_positional_not_in_synopsis() {
    let cmd = clap::Command::new("p").arg(clap::Arg::new("secretpos").hide(true)).arg(clap::Arg::new("shown"));
    let mut buf = Vec::new();
    clap_mangen::Man::new(cmd).render(&mut buf).unwrap();
    let page = String::from_utf8(buf).unwrap();
    assert!(!page.contains("secretpos"), "{page}");
    assert!(page.contains("shown"));
}
