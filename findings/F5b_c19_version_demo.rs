#[test]
fn version_section_of_a_command_without_version() {
    let cmd = clap::Command::new("p");
    let mut buf = Vec::new();
    clap_mangen::Man::new(cmd).render_version_section(&mut buf).unwrap();
    assert!(String::from_utf8(buf).unwrap().contains("VERSION"));
}
