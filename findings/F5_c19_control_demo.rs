fn render(cmd: clap::Command) -> String {
    let mut buf = Vec::new();
    clap_mangen::Man::new(cmd).render(&mut buf).unwrap();
    String::from_utf8(buf).unwrap()
}
#[test]
fn version_and_headings_cannot_inject_requests() {
    let cmd = clap::Command::new("p").version("1.0\n.so /etc/passwd")
        .arg(clap::Arg::new("x").long("x").help_heading("Net\n.so /etc/shadow"))
        .subcommand_help_heading("Cmds\n.so /etc/group").subcommand(clap::Command::new("s"));
    let page = render(cmd);
    for l in page.lines() { assert!(!l.starts_with(".so"), "injected request line: {l}\n{page}"); }
}
