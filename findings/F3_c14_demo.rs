#[test]
fn cursor_past_the_end() {
    let mut raw = clap_lex::RawArgs::new(["bin"]);
    let mut c = raw.cursor();
    assert!(raw.next_os(&mut c).is_some());
    assert!(raw.next_os(&mut c).is_none());
    assert!(raw.next_os(&mut c).is_none());
    assert_eq!(raw.remaining(&mut c).count(), 0);
    let mut c2 = raw.cursor();
    raw.next_os(&mut c2); raw.next_os(&mut c2); raw.next_os(&mut c2);
    raw.insert(&c2, ["x"]);
    assert!(raw.is_end(&c2) || raw.peek_os(&c2).is_some());
}
