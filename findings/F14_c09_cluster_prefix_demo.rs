// F14 (C09 R9.5c, also C08 cluster-vs-separate equivalence): flags in front of a short flag subcommand in the same cluster.
// `pacman -v -Syu` parses, `pacman -vSyu` is rejected with UnknownArgument `-S`: the resume offset handed to the sub-parser
// counts from the flag subcommand (`S`), not from the start of the cluster, so the sub-parser skips only `v` and meets `S`.
// KNOWN FINDING (not repaired): counting from the cluster start needs the pending values resolved first, which changes
// which error is reported for `--opt -x`-like lines (tried; `flag_subcommand_short_after_long_arg` shows the interaction).
use clap::{Arg, ArgAction, Command};
fn cmd() -> Command {
    Command::new("pacman")
        .arg(Arg::new("verbose").short('v').action(ArgAction::SetTrue).global(true))
        .subcommand(
            Command::new("sync").short_flag('S')
                .arg(Arg::new("refresh").short('y').action(ArgAction::SetTrue))
                .arg(Arg::new("upgrade").short('u').action(ArgAction::SetTrue)),
        )
}
#[test]
fn cluster_equals_separate_flags() {
    let a = cmd().try_get_matches_from(["pacman", "-v", "-Syu"]).expect("separate");
    let b = cmd().try_get_matches_from(["pacman", "-vSyu"]).expect("one cluster");   // fails today
    let (_, sa) = a.subcommand().unwrap();
    let (_, sb) = b.subcommand().unwrap();
    assert_eq!(sa.get_flag("refresh"), sb.get_flag("refresh"));
    assert_eq!(sa.get_flag("upgrade"), sb.get_flag("upgrade"));
}
