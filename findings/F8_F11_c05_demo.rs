use clap::{Arg, ArgAction, Command};
fn cmd() -> Command {
    Command::new("p")
        .arg(Arg::new("files").index(1).num_args(1..).required(true).action(ArgAction::Append))
        .arg(Arg::new("target").index(2).required(true))
        .arg(Arg::new("x").long("x").action(ArgAction::SetTrue))
}
fn raw(m: &clap::ArgMatches, id: &str) -> Vec<String> {
    m.get_raw(id).map(|v| v.map(|s| s.to_string_lossy().into_owned()).collect()).unwrap_or_default()
}
#[test]
fn low_index_multiple_after_escape() {
    let m = cmd().try_get_matches_from(["p", "--", "a", "b"]).unwrap();
    assert_eq!((raw(&m, "files"), raw(&m, "target")), (vec!["a".to_owned()], vec!["b".to_owned()]));
    let m = cmd().try_get_matches_from(["p", "--", "a", "--x"]).expect("`--x` after `--` is a value");
    assert_eq!((raw(&m, "files"), raw(&m, "target")), (vec!["a".to_owned()], vec!["--x".to_owned()]));
}
#[test]
fn dont_delimit_every_trailing_value() {
    let m = Command::new("p").dont_delimit_trailing_values(true)
        .arg(Arg::new("vals").num_args(1..).value_delimiter(','))
        .try_get_matches_from(["p", "a,b", "--", "c,d", "e,f"]).unwrap();
    assert_eq!(raw(&m, "vals"), vec!["a", "b", "c,d", "e,f"]);
}
