use clap::{Arg, ArgAction, Command};
#[test]
fn help_with_only_a_short_count_flag() {
    let mut cmd = Command::new("p").disable_help_flag(true)
        .arg(Arg::new("v").short('v').action(ArgAction::Count).help("More output"));
    let h = cmd.render_help().to_string();
    assert!(h.contains("-v...  More output"), "{h}");
}
