use clap::{Arg, Command, builder::PossibleValue};
fn gen<G: clap_complete::Generator>(g: G) -> String {
    let mut cmd = Command::new("p")
        .arg(Arg::new("mode").long("mode").value_parser([PossibleValue::new("fastmode"), PossibleValue::new("slowmode")]))
        .subcommand(Command::new("build").visible_alias("bld"));
    let mut buf = Vec::new();
    clap_complete::generate(g, &mut cmd, "p", &mut buf);
    String::from_utf8(buf).unwrap()
}
#[test]
fn coverage() {
    let nu = gen(clap_complete_nushell::Nushell);
    let ps = gen(clap_complete::shells::PowerShell);
    let el = gen(clap_complete::shells::Elvish);
    let fish = gen(clap_complete::shells::Fish);
    println!("nushell alias bld: {}", nu.contains("bld"));
    println!("powershell fastmode: {}", ps.contains("fastmode"));
    println!("elvish fastmode: {}", el.contains("fastmode"));
    println!("fish fastmode: {} bld: {}", fish.contains("fastmode"), fish.contains("bld"));
    println!("ps bld: {} el bld: {} nu fastmode: {}", ps.contains("bld"), el.contains("bld"), nu.contains("fastmode"));
}
