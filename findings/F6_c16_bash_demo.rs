#[test]
fn bash_subcommand_name_with_double_underscore() {
    let mut cmd = clap::Command::new("p").subcommand(clap::Command::new("a__b").arg(clap::Arg::new("x").long("x")));
    let mut buf = Vec::new();
    clap_complete::generate(clap_complete::shells::Bash, &mut cmd, "p", &mut buf);
    assert!(!buf.is_empty());
}
