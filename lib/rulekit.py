"""Small helpers shared by rule modules."""
import re
from facts import *  # noqa

NEG = {"Lt": "Ge", "Ge": "Lt", "Le": "Gt", "Gt": "Le", "Eq": "Ne", "Ne": "Eq"}
MIRROR = {"Lt": "Gt", "Gt": "Lt", "Le": "Ge", "Ge": "Le", "Eq": "Eq", "Ne": "Ne"}


def split_top(s):
    """'Op(a,b)' -> ('Op', [a, b]) splitting at top-level commas; None if not of that form."""
    m = re.match(r"^([A-Za-z_][\w:]*)\((.*)\)$", s)
    if not m:
        return None
    args, depth, cur = [], 0, ""
    inner = m.group(2)
    instr = False
    for ch in inner:
        if ch == "'" or ch == '"':
            instr = not instr
        if not instr:
            if ch in "([{":
                depth += 1
            elif ch in ")]}":
                depth -= 1
                if depth < 0:
                    return None
            elif ch == "," and depth == 0:
                args.append(cur)
                cur = ""
                continue
        cur += ch
    args.append(cur)
    if depth != 0:
        return None
    return m.group(1), args


def cmp_facts(body, bb):
    """All comparison facts that hold at bb, canonicalised: set of (op, a, b) with polarity folded in
    and the mirrored form added."""
    out = set()
    for pol, e, _ in guards(body, bb):
        if pol not in ("T", "F"):
            continue
        st = split_top(e)
        if not st or st[0] not in NEG or len(st[1]) != 2:
            continue
        op, (a, b) = st
        if pol == "F":
            op = NEG[op]
        out.add((op, a, b))
        out.add((MIRROR[op], b, a))
    return out


def has_cmp(facts_, op, a_rx, b_rx):
    for (o, a, b) in facts_:
        if o == op and re.search(a_rx, a) and re.search(b_rx, b):
            return True
    return False


def bool_facts(body, bb):
    """(polarity, expr) of plain boolean guards (calls etc.) holding at bb."""
    return [(p, e) for p, e, _ in guards(body, bb) if p in ("T", "F")]


def has_bool(body, bb, pol, rx):
    return any(p == pol and re.search(rx, e) for p, e in bool_facts(body, bb))


def variant_guard(body, bb, rx):
    """Discriminant guards at bb whose matched place matches rx: list of polarity strings ('V1', '!V0,1')."""
    return [p for p, e, _ in guards(body, bb) if p[0] in "V!" and re.search(rx, e)]


def agg_variants(body, operand, depth=8):
    """Variant names of ADT aggregates flowing (through copies/moves/refs) into operand."""
    out = set()
    seen = set()
    work = [op_local(operand)] if op_place(operand) is not None else []
    while work:
        l = work.pop()
        if l in seen or l is None:
            continue
        seen.add(l)
        for (bb, idx, lhs, rhs) in body.def_sites(l):
            if isinstance(rhs, Call):
                continue
            if rhs["k"] == "agg" and rhs["ak"] == "adt":
                out.add(rhs["variant"])
            elif rhs["k"] in ("use", "cast") and op_place(rhs["op"]) is not None:
                work.append(op_local(rhs["op"]))
            elif rhs["k"] == "use" and "promoted" in rhs["op"]:
                pb = body.j.get("promoted", [])
                pi = rhs["op"]["promoted"]
                if pi < len(pb):
                    for bl in pb[pi]:
                        for s in bl["stmts"]:
                            if s["k"] == "assign" and s["rv"]["k"] == "agg" and s["rv"]["ak"] == "adt":
                                out.add(s["rv"]["variant"])
            elif rhs["k"] == "ref":
                work.append(pl_local(rhs["place"]))
    return out


def fn_key(body):
    """Stable key for a body (no line numbers)."""
    return body.q


def enum_variants(fx, suffix):
    a = fx.adt(suffix)
    return [v["name"] for v in a["variants"]]


def hir_matches_in(body):
    """HIR match facts whose owner is this body (or its enclosing fn for closures)."""
    cr = body.crate
    b = body
    while b.parent is not None:
        b = b.parent
    return [m for m in cr.matches if m["owner"] == b.defi and sp_contains(body.span, m["span"])]


def tree(body):
    """body and all closure bodies nested in it."""
    out = [body]
    for ch in body.children:
        out.extend(tree(ch))
    return out


def tree_calls(body, *pats):
    out = []
    for b in tree(body):
        out.extend(b.calls_to(*pats))
    return out


def closure_bodies(fx, call):
    out = []
    for q in call.closures:
        out.extend(fx.by_q.get(q, []))
    return out


def own_closures(fx, call):
    """The closure bodies passed to THIS call as arguments (call.closures also lists closures of the receiver chain, in the order of
    the callee's generic arguments, not of nesting)."""
    b = call.body
    out = []
    for a in call.args:
        if not (isinstance(a, dict) and ("mv" in a or "cp" in a)):
            continue
        l = pl_local(op_place(a))
        for _ in range(4):
            ds = [d for d in b.def_sites(l) if isinstance(d[2], int)]
            if len(ds) != 1 or not isinstance(ds[0][3], dict):
                break
            rv = ds[0][3]
            if rv["k"] == "agg" and rv.get("ak") == "closure" and rv.get("def") is not None:
                out.extend(fx.by_q.get(b.crate.q[rv["def"]], []))
                break
            if rv["k"] in ("use", "cast") and isinstance(rv.get("op"), dict) and ("mv" in rv["op"] or "cp" in rv["op"]):
                l = pl_local(op_place(rv["op"]))
            elif rv["k"] == "ref":
                l = pl_local(rv["place"])
            else:
                break
    if not out:
        # closures given as fn items / ZST closures without a materialised aggregate: fall back to the listed ones
        out = closure_bodies(fx, call)[-1:]
    return out


def reads_field(body, field, adt_suffix=None):
    """Does the body (or its closures) read a place with projection `.field@...adt`?"""
    pat = "." + field + "@"
    for b in tree(body):
        for i, j, s in b.stmts():
            if s["k"] != "assign":
                continue
            for p in rv_places(s["rv"]):
                for el in pl_proj(p):
                    if isinstance(el, str) and el.startswith(pat) and (adt_suffix is None or el.endswith(adt_suffix)):
                        return True
        for bl in b.blocks:
            t = bl["term"]
            if t["k"] == "switch":
                p = op_place(t["op"])
                if p is not None:
                    for el in pl_proj(p):
                        if isinstance(el, str) and el.startswith(pat):
                            return True
    return False


def writes_field(body, field):
    """(bb, stmt) of assignments whose destination has projection `.field@`."""
    out = []
    pat = "." + field + "@"
    live = body.reachable(0)
    for i, j, s in body.stmts():
        if i not in live or body.blocks[i]["cleanup"]:
            continue   # unwind copies of drop-and-assign
        if s["k"] == "assign" and not isinstance(s["place"], int):
            if any(isinstance(el, str) and el.startswith(pat) for el in s["place"][1:]):
                out.append((i, s))
    return out


def const_of(body, operand, depth=0):
    """String/char constant an operand evaluates to, following copies, refs and promoted constants."""
    if operand is None or depth > 8:
        return None
    if isinstance(operand, dict):
        s = const_str(operand)
        if s is not None:
            return s
        ch = op_char(operand)
        if ch is not None:
            return ch
        if "promoted" in operand:
            pb = body.j.get("promoted", [])
            pi = operand["promoted"]
            if pi < len(pb):
                for bl in pb[pi]:
                    for st in bl["stmts"]:
                        if st["k"] == "assign" and st["rv"]["k"] == "use":
                            cs = const_str(st["rv"]["op"])
                            if cs is not None:
                                return cs
            return None
        p = op_place(operand)
        if p is None:
            return None
    else:
        p = operand
    l = pl_local(p)
    sites = [s for s in body.def_sites(l) if isinstance(s[2], int)]
    if len(sites) != 1:
        return None
    rhs = sites[0][3]
    if isinstance(rhs, Call):
        return None
    if rhs["k"] in ("use", "cast"):
        return const_of(body, rhs["op"], depth + 1)
    if rhs["k"] == "ref":
        return const_of(body, rhs["place"], depth + 1)
    return None


NONDET = (r"(std::collections::hash::map::HashMap|std::collections::hash::set::HashSet|hashbrown::)[^:]*::(iter|keys|values|into_iter|drain|iter_mut|values_mut|into_keys|into_values)$|"
          r"<std::collections::hash::(map::HashMap|set::HashSet)[^>]* as std::iter::traits::collect::IntoIterator>::into_iter$|"
          r"std::time::(SystemTime|Instant)::now$|std::env::(var|var_os|vars|vars_os|args|args_os|current_dir|current_exe|temp_dir)$|"
          r"std::thread::current$|std::process::id$|rand::|getrandom::|terminal_size::terminal_size|std::hash::random::RandomState::new$")


def nondet_calls(fx, bodies):
    out = []
    for b in bodies:
        for c in b.calls():
            q = c.callee_q or c.decl_q or ""
            if re.search(NONDET, q):
                out.append(c)
    return out


def arm_values(body):
    """For a body that is one `match <enum place> { .. }` producing the return value: {discriminant: expr of the
    value the arm returns}; 'otherwise' key for a wildcard arm.  Structural read of SwitchInt targets."""
    sw = body.discr_switches()
    if not sw:
        return {}
    bb, pl, ty, targets, otherwise = sw[0]
    out = {}
    alltg = list(targets.items()) + [("otherwise", otherwise)]
    for v, tg in alltg:
        others = set(t for vv, t in alltg if t != tg)
        region = body.reachable(tg, without_blocks=tuple(others))
        val = None
        for i in sorted(region):
            bl = body.blocks[i]
            for s in bl["stmts"]:
                if s["k"] == "assign" and s["place"] == 0:
                    rv = s["rv"]
                    if rv["k"] == "use":
                        val = expr(body, rv["op"])
                    elif rv["k"] == "agg":
                        val = "%s(%s)" % (rv.get("variant") or rv["ak"], ",".join(expr(body, o) for o in rv["ops"]))
                    else:
                        val = "?"
            t = bl["term"]
            if t["k"] == "call" and t["dest"] == 0:
                c = Call(body, i, t)
                val = "%s(%s)" % ((c.callee_q or "?").rsplit("::", 1)[-1], ",".join(expr(body, a) for a in c.args))
        if all(body.blocks[i]["term"]["k"] == "unreachable" for i in region) and region:
            continue
        # a region shared by several discriminants (A | B => ..) is reported for each
        out[v] = val
    return out


def slice_calls(fx, body, operand, max_nodes=400):
    """Calls (Call objects) in the backward slice of an operand: through assignments, aggregates, every argument of
    every call encountered, and the bodies of closures handed to those calls."""
    out = []
    seen = set()
    work = [op_local(operand)] if op_place(operand) is not None else []
    n = 0
    while work and n < max_nodes:
        l = work.pop()
        if l in seen or l is None:
            continue
        seen.add(l)
        n += 1
        for (bb, idx, lhs, rhs) in body.def_sites(l):
            if not isinstance(lhs, int):
                continue
            if isinstance(rhs, Call):
                out.append(rhs)
                for a in rhs.args:
                    if op_place(a) is not None:
                        work.append(op_local(a))
                for cb in closure_bodies(fx, rhs):
                    for x in tree(cb):
                        out.extend(x.calls())
            else:
                for p in rv_places(rhs):
                    work.append(pl_local(p))
    return out


def slice_fields(fx, body, operand, adt_suffix="Command", max_nodes=600):
    """Field names (of places projecting into `adt_suffix`) read anywhere in the backward slice of an operand,
    including arguments of calls and closure bodies on the way (format! arguments included)."""
    out = set()
    seen = set()
    work = [op_local(operand)] if op_place(operand) is not None else []

    def note_place(p):
        if isinstance(p, int) or p is None:
            return
        for el in p[1:]:
            if isinstance(el, str) and el.startswith(".") and "@" in el and el.split("@", 1)[1].endswith(adt_suffix):
                out.add(el[1:].split("@")[0])
    n = 0
    while work and n < max_nodes:
        l = work.pop()
        if l in seen or l is None:
            continue
        seen.add(l)
        n += 1
        for (bb, idx, lhs, rhs) in body.def_sites(l):
            if not isinstance(lhs, int):
                continue   # a write through a projection of l does not define l's value
            if isinstance(rhs, Call):
                for a in rhs.args:
                    p = op_place(a)
                    if p is not None:
                        note_place(p)
                        work.append(pl_local(p))
                for cb in closure_bodies(fx, rhs):
                    for x in tree(cb):
                        for i, j, s in x.stmts():
                            if s["k"] == "assign":
                                for p in rv_places(s["rv"]):
                                    note_place(p)
            else:
                for p in rv_places(rhs):
                    note_place(p)
                    work.append(pl_local(p))
    return out


def reach_calls(fx, entries, follow=lambda body, call: True, crates=None, stop=lambda b: False):
    """Call-graph reachability where each call site can be vetoed (e.g. calls inside a guarded region)."""
    seen = {}
    work = list(entries)
    for e in entries:
        seen[id(e)] = e
    while work:
        b = work.pop()
        if stop(b):
            continue
        nxt = list(b.children)
        for c in b.calls():
            if not follow(b, c):
                continue
            nxt.extend(fx.callee_bodies(c))
            for q in c.closures + c.fnitems:
                nxt.extend(fx.by_q.get(q, []))
        for n in nxt:
            if crates and n.crate.name not in crates:
                continue
            if id(n) not in seen:
                seen[id(n)] = n
                work.append(n)
    return list(seen.values())


def near_calls(fx, body, rx, depth=2):
    """Calls matching rx in bodies entered from `body` through at most `depth` call levels (closures included)."""
    seen = {id(body): body}
    layer = [body]
    out = []
    for d in range(depth + 1):
        nxt = []
        for b in layer:
            for t in tree(b):
                out.extend(c for c in t.calls_to(rx))
                if d == depth:
                    continue
                for c in t.calls():
                    for n in list(fx.callee_bodies(c)) + [x for q in c.closures + c.fnitems for x in fx.by_q.get(q, [])]:
                        if id(n) not in seen:
                            seen[id(n)] = n
                            nxt.append(n)
        layer = nxt
    return out


def require(fx, res, rule, key, body, rx, found, minimum, bad, local_callee=True):
    """Obligation 'body performs the call(s) rx' (found = number of qualifying direct call sites the rule located).
    Unmet -> VIOLATION when the callee still exists and body no longer reaches it within two call levels (the step was
    deleted); unmet because the callee was renamed/inlined away, or moved into a helper that body still calls ->
    anchor drift (fail closed, exit 2): the rule has to be re-anchored, nothing is concluded."""
    if found >= minimum:
        return True
    exists = (not local_callee) or bool(fx.bodies(rx))
    moved = [c for c in near_calls(fx, body, rx) if c.body is not body and c.body not in tree(body)]
    if not exists or (moved and found == 0):
        res.floor(rule, "%s in %s%s" % (rx, body.q.rsplit("::", 1)[1], " (callee no longer defined)" if not exists else " (now reached through %s)" % moved[0].body.q), found, minimum)
    else:
        res.violation(rule, key, body.where(), bad)
    return False


def bool_table(body, atoms, max_steps=400):
    """Truth table of a small bool-returning function over named atoms (abstract interpretation over booleans).
    atoms: list of (name, regex) — a call whose canonical expression matches the regex yields that atom's value.
    Returns {assignment(tuple of bools in atom order): True/False/None} where None = the walk met a branch or value it
    cannot express over the atoms (nothing is concluded then).  Independent of statement order / let-splitting."""
    import itertools
    out = {}
    names = [a[0] for a in atoms]
    for vals in itertools.product((False, True), repeat=len(atoms)):
        sig = dict(zip(names, vals))
        env = {}
        pc, steps, result = 0, 0, None

        def opval(op):
            if "int" in op:
                return bool(op["int"])
            l = op.get("cp", op.get("mv"))
            if isinstance(l, int):
                return env.get(l)
            return None
        while steps < max_steps:
            steps += 1
            bl = body.blocks[pc]
            for s in bl["stmts"]:
                if s["k"] != "assign" or not isinstance(s["place"], int):
                    continue
                rv = s["rv"]
                if rv["k"] == "use":
                    env[s["place"]] = opval(rv["op"])
                elif rv["k"] == "unop" and rv.get("op") == "Not":
                    v = opval(rv["a"])
                    env[s["place"]] = (not v) if v is not None else None
                else:
                    env[s["place"]] = None
            t = bl["term"]
            if t["k"] == "goto":
                pc = t["target"]
            elif t["k"] == "call":
                d = t.get("dest")
                if isinstance(d, int):
                    e = expr(body, d)
                    hit = [n for (n, rx) in atoms if re.search(rx, e)]
                    env[d] = sig[hit[0]] if len(hit) == 1 else None
                if t.get("target") is None:
                    break
                pc = t["target"]
            elif t["k"] == "switch":
                v = opval(t["op"])
                if v is None or t.get("ty") != "bool":
                    break
                nxt = t["otherwise"]
                for (val, tgt) in t["targets"]:
                    if int(v) == val:
                        nxt = tgt
                pc = nxt
            elif t["k"] == "drop":
                pc = t["target"]
            elif t["k"] == "return":
                result = env.get(0)
                break
            else:
                break
        out[vals] = result
    return out


TRANSPARENT = r"(?:as_str|as_ref|deref|borrow|as_os_str|as_slice|as_bytes_ref)"


def strip_transparent(e):
    """Drop wrappers that do not change the value (as_str(x), deref(x), as_ref(x) ...) from a canonical expression."""
    changed = True
    while changed:
        changed = False
        for m in re.finditer(r"\b" + TRANSPARENT + r"\(", e):
            i, depth, top_comma = m.end(), 1, False
            while i < len(e) and depth:
                ch = e[i]
                if ch == "(":
                    depth += 1
                elif ch == ")":
                    depth -= 1
                elif ch == "," and depth == 1:
                    top_comma = True
                i += 1
            if depth == 0 and not top_comma:
                e = e[:m.start()] + e[m.end():i - 1] + e[i:]
                changed = True
                break
    return e


def closure_feed(fx, cb):
    """For a closure body: (parent body, the call it is passed to, canonical expression of that call's receiver/first argument).
    Lets a rule see `xs.iter().for_each(|x| f(x))` like `for x in xs { f(x) }`."""
    p = cb.parent
    if p is None:
        return None
    for c in p.calls():
        if cb.q in c.closures:
            return (p, c, expr(p, c.args[0]) if c.args else "")
    return None


def agg_payloads(body, operand):
    """(variant, [payload ints/None]) of ADT aggregates flowing into operand (promoted constants resolved): e.g. Some(0)."""
    out = []
    seen = set()
    work = [op_local(operand)] if op_place(operand) is not None else []
    while work:
        l = work.pop()
        if l in seen or l is None:
            continue
        seen.add(l)
        for (bb, idx, lhs, rhs) in body.def_sites(l):
            if isinstance(rhs, Call):
                continue
            if rhs["k"] == "agg" and rhs["ak"] == "adt":
                out.append((rhs["variant"], [op_int(o) for o in rhs.get("ops", [])]))
            elif rhs["k"] in ("use", "cast") and op_place(rhs["op"]) is not None:
                work.append(op_local(rhs["op"]))
            elif rhs["k"] == "use" and "promoted" in rhs["op"]:
                pb = body.j.get("promoted", [])
                pi = rhs["op"]["promoted"]
                if pi < len(pb):
                    for bl in pb[pi]:
                        for s in bl["stmts"]:
                            if s["k"] == "assign" and s["rv"]["k"] == "agg" and s["rv"]["ak"] == "adt":
                                out.append((s["rv"]["variant"], [op_int(o) for o in s["rv"].get("ops", [])]))
            elif rhs["k"] == "ref":
                work.append(pl_local(rhs["place"]))
    return out


def exists_forms(fx, body, src_rx):
    """The ways `body` computes "some element of <src> satisfies a test": list of (form, call) with form in
    any  : src.any(closure)
    find : src.find(closure) / src.position(closure) whose result is only tested with is_some / a Some-match
    loop : for x in src { if test(x) { return true } } false — every `true` written to the return place in the loop sits on the
           Some edge of the loop's next(), every `false` on its None edge (no early negative exit)
    src_rx is matched against the canonical expression of the iterated collection."""
    out = []
    for c in body.calls_to(r"Iterator>?::any$"):
        if re.search(src_rx, expr(body, c.args[0])):
            out.append(("any", c))
    for c in body.calls_to(r"Iterator>?::(find|position)$"):
        if re.search(src_rx, expr(body, c.args[0])):
            d = expr(body, c.dest)
            uses = [x for x in body.calls_to(r"Option::is_some$") if expr(body, x.args[0]) == d]
            if uses:
                out.append(("find", c))
    for c in body.calls_to(r"Iterator>?::next$"):
        it = expr(body, c.args[0])
        m = re.fullmatch(r"into_iter\((.*)\)", it)
        if not (m and re.search(src_rx, m.group(1))):
            continue
        nx = "next(%s)" % it
        inside = body.reachable(c.bb)
        good = True
        seen_true = False
        for (bb, idx, lhs, rhs) in body.def_sites(0):
            if bb not in inside or not (isinstance(rhs, dict) and rhs["k"] == "use" and op_int(rhs["op"]) in (0, 1)):
                continue
            gs = guard_strs(body, bb)
            if op_int(rhs["op"]) == 1:
                seen_true = True
                good = good and ("V1:" + nx) in gs
            else:
                good = good and ("V0:" + nx) in gs
        if good and seen_true:
            out.append(("loop", c))
    return out


def local_sig(body, name):
    """Shape of the definitions of the source-level local `name` (closures included): what it is bound to, without any
    local names — callee of a call, or the projection path / rvalue kind of an assignment.  Used to tell which new name
    replaced a vanished one (check: named anchors)."""
    out = set()
    for t in tree(body):
        for l in t.locals_named(name):
            if 1 <= l <= t.argc:
                out.add("param")
            for (bb, idx, lhs, rhs) in t.def_sites(l):
                if isinstance(rhs, Call):
                    out.add("call:" + (rhs.callee_q or rhs.decl_q or "?").rsplit("::", 1)[-1])
                else:
                    k = rhs["k"]
                    pl_ = rhs.get("place") if k in ("ref", "discr") else (op_place(rhs["op"]) if k in ("use", "cast") and isinstance(rhs.get("op"), dict) and ("cp" in rhs["op"] or "mv" in rhs["op"]) else None)
                    if pl_ is not None:
                        out.add(k + ":" + "".join(el.split("@")[0] for el in pl_proj(pl_)))
                    else:
                        out.add(k + (":" + rhs["op"] if k in ("binop", "unop") else ""))
    return sorted(out)


def first_match_scan(fx, body):
    """How `body` finds the FIRST position satisfying a test over an ascending range — `(a..=b).find(|x| test(x))`, or
    `for x in a..=b { if test(x) { return Some(x) } } None`.  Returns None if neither form is found, else a dict:
    form, test_calls (the calls the test makes, closure or loop body), first (True when the first hit is returned: no
    rev/rfind/rposition/last, and in the loop form the hit is returned without going round the loop again)."""
    backwards = bool(tree_calls(body, r"rfind|rposition|::rev$|Iterator>?::last$|DoubleEndedIterator"))
    for c in body.calls_to(r"Iterator>?::find$"):
        if re.match(r"^(new|Range::Range|RangeInclusive)\(", expr(body, c.args[0])) or "Range" in (c.targs[0] if c.targs else ""):
            cbs = own_closures(fx, c)
            return {"form": "find", "test_calls": [x for cb in cbs for x in cb.calls()], "first": not backwards}
    for c in body.calls_to(r"Iterator>?::next$"):
        it = expr(body, c.args[0])
        if not re.match(r"^into_iter\((new|Range::Range)\(", it):
            continue
        x = "next(%s)#Some.0" % it
        inside = body.reachable(c.bb)
        hits = [d for d in body.def_sites(0) if d[0] in inside and isinstance(d[3], dict) and d[3]["k"] == "agg" and d[3].get("variant") == "Some"
                and expr(body, d[3]["ops"][0]) == x]
        if not hits:
            continue
        again = any(c.bb in body.reachable(d[0]) and d[0] != c.bb for d in hits)
        tests = [y for y in body.calls() if y.bb in inside and ("V1:next(%s)" % it) in guard_strs(body, y.bb)]
        guarded = all(any(g.startswith("T:") for g in guard_strs(body, d[0]) if "next(" not in g or True) for d in hits)
        return {"form": "loop", "test_calls": tests, "first": not backwards and not again and guarded}
    return None


def value_leaves(body, operand, depth=0):
    """The definitions a value can come from, looking through unnamed multi-definition temporaries (the `match`/`if`
    expression form `x = match .. { A => a, B => b }` assigns a temp in every arm and moves it once): list of
    (bb, rvalue-or-Call).  A named local or a single-definition temp is a leaf of its own."""
    if not isinstance(operand, dict) or not ("mv" in operand or "cp" in operand) or depth > 4:
        return None
    p = op_place(operand)
    l = pl_local(p)
    if pl_proj(p) or body.local_name(l) or 1 <= l <= body.argc:
        return None
    ds = [d for d in body.def_sites(l) if isinstance(d[2], int)]
    if len(ds) < 2:
        return None
    out = []
    for (bb, idx, lhs, rhs) in ds:
        sub = value_leaves(body, rhs["op"], depth + 1) if isinstance(rhs, dict) and rhs["k"] == "use" else None
        out.extend(sub if sub else [(bb, rhs)])
    return out


def collection_sources(body, operand, depth=10):
    """Canonical expressions a collection handed to a call is made of: the expression itself for an iterator chain
    (`xs.iter().filter(..).map(..).collect()`), or — for a Vec built locally with `Vec::new()` + push/extend in a loop — the
    expressions of everything pushed into it.  Lets a provenance rule read both forms."""
    e = expr(body, operand, depth)
    if not re.match(r"^(new\(\)|with_capacity\(|Vec::new\(\))", e):
        return [e]
    out = []
    for t in tree(body):
        for c in t.calls_to(r"Vec::push$|Vec::extend_from_slice$|Extend(<[^>]*>)?>?::extend$|Vec::insert$|Vec::append$"):
            if expr(t, c.args[0], depth) == e or re.sub(r"^deref_mut\((.*)\)$", r"\1", expr(t, c.args[0], depth)) == e:
                out.append(expr(t, c.args[-1], depth))
    return out or [e]


def enclosing_conditions(fx, body, bb):
    """Everything a block of `body` is conditional on, closures included: its own guards, and — when body is a closure handed
    to an iterator/Option adaptor — the return expressions of the `filter`/`take_while`/`skip_while` closures earlier in the
    receiver chain plus the guards of the adaptor call in the parent (recursively).  Lets a rule ask "is this read/effect
    under condition X?" without caring whether the code is a loop with an `if` or a chain with a `.filter(..)`."""
    out = list(guard_strs(body, bb))
    cur = body
    for _ in range(5):
        if cur.kind != "Closure" or cur.parent is None:
            break
        feed = closure_feed(fx, cur)
        if not feed:
            break
        par, call, recv = feed
        out.extend(guard_strs(par, call.bb))
        for f in par.calls_to(r"Iterator>?::(filter|take_while|skip_while)$", r"Option(<[^>]*>)?::filter$"):
            d = expr(par, f.dest)
            if d and d in recv:
                for cb in own_closures(fx, f):
                    r = expr(cb, 0)
                    out.append(("F:" + r[4:-1]) if r.startswith("Not(") else ("T:" + r))
        cur = par
    return out


def true_only_if_exists(fx, body, src_rx, test_rx):
    """`body` (a bool function) returns true only when SOME element of <src> passes the test: either `src.any(test)` is the only
    non-false result, or every `true` written to the return place sits on the T edge of test(<loop element of src>) inside a loop
    over src.  test_rx: callee of the test (regex)."""
    for c in body.calls_to(r"Iterator>?::any$"):
        if re.search(src_rx, expr(body, c.args[0])) and (any(re.search(test_rx, q) for q in c.fnitems) or any(cb.calls_to(test_rx) for cb in closure_bodies(fx, c))):
            truthy = [d for d in body.def_sites(0) if not (isinstance(d[3], dict) and d[3]["k"] == "use" and op_int(d[3]["op"]) == 0)]
            if all((not isinstance(d[3], dict)) and d[3] is c for d in truthy):
                return True
    for c in body.calls_to(r"Iterator>?::next$"):
        it = expr(body, c.args[0])
        m = re.fullmatch(r"into_iter\((.*)\)", it)
        if not (m and re.search(src_rx, m.group(1))):
            continue
        elem = "next(%s)#Some.0" % it
        tests = [t for t in body.calls_to(test_rx) if expr(body, t.args[0]) == elem]
        if not tests:
            continue
        tnames = set("T:" + expr(body, t.dest) for t in tests)
        trues = [d for d in body.def_sites(0) if isinstance(d[3], dict) and d[3]["k"] == "use" and op_int(d[3]["op"]) == 1]
        others = [d for d in body.def_sites(0) if not (isinstance(d[3], dict) and d[3]["k"] == "use" and op_int(d[3]["op"]) in (0, 1))]
        if trues and not others and all(tnames & set(guard_strs(body, d[0])) for d in trues):
            return True
    return False


def result_defs(body):
    """Definition sites of the function's result, looking through `let r; match .. { A => r = a, .. }; r`: a definition of the
    return place that merely copies a local with several definitions is replaced by that local's definitions."""
    out = []
    seen = set()
    work = list(body.def_sites(0))
    while work:
        d = work.pop(0)
        rv = d[3]
        if isinstance(rv, dict) and rv["k"] == "use" and isinstance(rv["op"], dict) and ("cp" in rv["op"] or "mv" in rv["op"]) and not pl_proj(op_place(rv["op"])):
            l = pl_local(op_place(rv["op"]))
            nd = [x for x in body.def_sites(l) if isinstance(x[2], int)]
            if l not in seen and l > body.argc and len(nd) >= 2:
                seen.add(l)
                work.extend(nd)
                continue
        out.append(d)
    return out
