"""P6/P7 — variant-set abstract interpretation over MIR facts.

Forward dataflow, flow-sensitive, block-level joins, loops by fixpoint.  An abstract
value (AV) is TOP or a finite set of *terms*:
  ('i', n)                          integer / bool / char
  ('s', text)                       string constant
  ('a', adt, vi, vname, fields)     ADT value of variant index vi (fields: tuple of AV)
  ('t', fields)                     tuple
  ('r', local)                      pointer to a local of the current frame
  ('rv', av)                        pointer to a snapshot value (crossed a frame)
  ('o', name)                       opaque result of a call the analysis does not enter
SwitchInt on a discriminant refines the matched place on every edge; an edge whose
refined set is empty is infeasible and is not followed.  Calls into workspace bodies use
context-sensitive summaries (memoised), with the parameters of Option/Result/enum type
partitioned by variant so that `b = x.is_some(); f(x, b)` stays correlated inside `f`.

This is an abstract interpretation of the source's IR; nothing is executed.
"""
import re
from collections import deque

from facts import Call, op_place, pl_local, pl_proj, const_str, op_is_const

TOP = "TOP"
MAXSET = 24
MAXDEPTH = 4


def av_int(n):
    return frozenset([("i", n)])


BOOL_ANY = frozenset([("i", 0), ("i", 1)])


def join(a, b):
    if a is None:
        return b
    if b is None:
        return a
    if a == TOP or b == TOP:
        return TOP
    u = a | b
    if len(u) > MAXSET:
        return TOP
    return u


def depth_cap(av, d=0):
    if av == TOP or av is None:
        return av
    if d >= MAXDEPTH:
        return TOP
    out = set()
    for t in av:
        if t[0] == "a":
            out.add(("a", t[1], t[2], t[3], tuple(depth_cap(f, d + 1) for f in t[4])))
        elif t[0] == "t":
            out.add(("t", tuple(depth_cap(f, d + 1) for f in t[1])))
        elif t[0] == "rv":
            out.add(("rv", depth_cap(t[1], d + 1)))
        else:
            out.add(t)
    return frozenset(out)


STD_ENUMS = {
    "std::option::Option": ["None", "Some"],
    "std::result::Result": ["Ok", "Err"],
    "std::ops::control_flow::ControlFlow": ["Continue", "Break"],
    "std::cmp::Ordering": ["Less", "Equal", "Greater"],
}
STD_ARITY = {("std::option::Option", 0): 0, ("std::option::Option", 1): 1,
             ("std::result::Result", 0): 1, ("std::result::Result", 1): 1,
             ("std::ops::control_flow::ControlFlow", 0): 1, ("std::ops::control_flow::ControlFlow", 1): 1}


def ty_head(ty):
    """`&'a mut Foo<X>` -> 'Foo' path without generics/refs."""
    t = ty.strip()
    while t.startswith("&"):
        t = t[1:].lstrip()
        if t.startswith("'"):
            t = t.split(" ", 1)[1] if " " in t else t
        if t.startswith("mut "):
            t = t[4:]
    i = t.find("<")
    return t if i < 0 else t[:i]


class Engine:
    def __init__(self, fx, oracle=None, max_depth=3, enter=lambda body: True, partition=True):
        self.fx = fx
        self.oracle = oracle
        self.max_depth = max_depth
        self.enter = enter
        self.partition = partition
        self.memo = {}
        self.stack = []
        self.adts = {}
        for c in fx.crates.values():
            for p, a in c.adts.items():
                self.adts[p] = a
        self.stats = {"bodies": 0, "summaries": 0}

    # ------------------------------------------------------------------ ADT knowledge
    def variants_of(self, adt):
        if adt in STD_ENUMS:
            return [(i, n, i, STD_ARITY.get((adt, i), 0)) for i, n in enumerate(STD_ENUMS[adt])]
        a = self.adts.get(adt)
        if a and a["kind"] == "enum":
            return [(i, v["name"], v["discr"], len(v["fields"])) for i, v in enumerate(a["variants"])]
        return None

    def discr_of(self, adt, vi):
        a = self.adts.get(adt)
        if a and a["kind"] == "enum" and vi < len(a["variants"]):
            return a["variants"][vi]["discr"]
        return vi

    def field_index(self, adt, vi, fname):
        a = self.adts.get(adt)
        if a and vi < len(a["variants"]):
            for i, f in enumerate(a["variants"][vi]["fields"]):
                if f[0] == fname:
                    return i
        if fname.isdigit():
            return int(fname)
        return None

    def expand_top(self, ty):
        """TOP of an enum type -> all variants with TOP fields (None if unknown type)."""
        h = ty_head(ty)
        vs = self.variants_of(h)
        if not vs or len(vs) > 16:
            return None
        return frozenset(("a", h, vi, n, tuple([TOP] * ar)) for vi, n, d, ar in vs)

    # ------------------------------------------------------------------ running a body
    def analyze(self, body, params=None, depth=0, blocks=None, partition_locals=()):
        r = Run(self, body, params or {}, depth, blocks)
        r.part = tuple(partition_locals)
        return r.go()

    def summary(self, body, args, depth):
        """AV returned by `body` for argument AVs `args` (list)."""
        key = (body.q, tuple(args))
        if key in self.memo:
            return self.memo[key]
        if any(k[0] == body.q for k in self.stack) or depth > self.max_depth:
            return TOP
        self.stack.append(key)
        self.memo[key] = TOP  # recursion default
        self.stats["summaries"] += 1
        # partition enum-typed params by variant
        combos = [[]]
        for i, a in enumerate(args):
            l = i + 1
            opts = [a]
            if self.partition and l < len(body.locals):
                ty = body.local_ty(l)
                cand = a
                if a == TOP:
                    e = self.expand_top(ty) if not ty.lstrip().startswith("&") else None
                    cand = e if e is not None else TOP
                if cand != TOP and cand is not None and 1 < len(cand) <= 4 and all(t[0] == "a" for t in cand):
                    opts = [frozenset([t]) for t in sorted(cand, key=repr)]
            if len(combos) * len(opts) > 16:
                opts = [a]
            combos = [c + [o] for c in combos for o in opts]
        ret = None
        for c in combos:
            r = self.analyze(body, {i + 1: v for i, v in enumerate(c)}, depth)
            ret = join(ret, r.ret)
        self.stack.pop()
        ret = depth_cap(ret) if ret is not None else frozenset()   # empty: never returns
        self.memo[key] = ret
        return ret


class Result:
    def __init__(self):
        self.instate = {}
        self.feasible = set()
        self.ret = None
        self.call_args = {}     # bb -> [AV]
        self.call_ret = {}      # bb -> AV
        self.panic_feasible = {}  # bb -> reason (unwrap on possibly-None etc.)
        self.budget_exceeded = False


class Run:
    def __init__(self, eng, body, params, depth, blocks=None):
        self.e = eng
        self.b = body
        self.params = params
        self.depth = depth
        self.blocks = blocks if blocks is not None else body.blocks
        self.res = Result()
        self.cond = {}   # bool local -> (place_local, variants_when_true, variants_when_false)
        self.part = ()   # locals whose singleton int value partitions the state (trace partitioning)
        eng.stats["bodies"] += 1

    # ---- values
    def const(self, o):
        if "int" in o:
            return av_int(o["int"])
        s = const_str(o)
        if s is not None:
            return frozenset([("s", s)])
        if "promoted" in o:
            pi = o["promoted"]
            pb = self.b.j.get("promoted", [])
            if pi < len(pb):
                r = Run(self.e, self.b, {}, self.depth + 1, blocks=pb[pi])
                rr = r.go()
                return rr.ret if rr.ret is not None else TOP
        if "cv" in o:
            return frozenset([("o", "const:" + o["cv"])])
        if "fn" in o:
            return frozenset([("o", "fn:" + self.b.crate.q[o["fn"]])])
        return frozenset([("o", "const:" + o.get("c", "?"))])

    def deref(self, st, av):
        if av == TOP or av is None:
            return TOP
        out = None
        for t in av:
            if t[0] == "r":
                out = join(out, st.get(t[1], TOP))
            elif t[0] == "rv":
                out = join(out, t[1])
            else:
                return TOP
        return out if out is not None else TOP

    def proj(self, st, av, elems):
        for el in elems:
            if av == TOP or av is None:
                return TOP
            if el == "*":
                av = self.deref(st, av)
            elif el.startswith("as#"):
                vi = int(el.rsplit("#", 1)[1])
                av = frozenset(t for t in av if t[0] == "a" and t[2] == vi)
                if not av:
                    # no known shape of that variant: unknown payload
                    return TOP
            elif el.startswith("."):
                name = el[1:].split("@")[0]
                out = None
                for t in av:
                    if t[0] == "a":
                        fi = self.e.field_index(t[1], t[2], name)
                        if fi is None or fi >= len(t[4]):
                            return TOP
                        out = join(out, t[4][fi])
                    elif t[0] == "t" and name.isdigit() and int(name) < len(t[1]):
                        out = join(out, t[1][int(name)])
                    else:
                        return TOP
                av = out if out is not None else TOP
            else:
                return TOP
        return av

    def read(self, st, place):
        l = pl_local(place)
        av = st.get(l, TOP)
        return self.proj(st, av, pl_proj(place))

    def operand(self, st, o):
        p = op_place(o)
        if p is not None:
            return self.read(st, p)
        return self.const(o)

    def snapshot(self, st, av, d=0):
        """Convert frame pointers into snapshot refs (for crossing frames / returning)."""
        if av == TOP or av is None or d > MAXDEPTH:
            return TOP
        out = set()
        for t in av:
            if t[0] == "r":
                out.add(("rv", self.snapshot(st, st.get(t[1], TOP), d + 1)))
            elif t[0] == "a":
                out.add(("a", t[1], t[2], t[3], tuple(self.snapshot(st, f, d + 1) for f in t[4])))
            elif t[0] == "t":
                out.add(("t", tuple(self.snapshot(st, f, d + 1) for f in t[1])))
            elif t[0] == "rv":
                out.add(("rv", self.snapshot(st, t[1], d + 1)))
            else:
                out.add(t)
        return frozenset(out)

    def rvalue(self, st, rv, dst=None):
        k = rv["k"]
        if k == "use":
            return self.operand(st, rv["op"])
        if k in ("ref", "rawptr"):
            p = rv["place"]
            if isinstance(p, int):
                return frozenset([("r", p)])
            if pl_proj(p) == ["*"]:
                return st.get(pl_local(p), TOP)
            return frozenset([("rv", self.read(st, p))])
        if k == "cast":
            v = self.operand(st, rv["op"])
            if rv["ck"] in ("PointerCoercion", "IntToInt", "PtrToPtr", "Transmute"):
                return v
            return TOP
        if k == "binop":
            a = self.operand(st, rv["a"])
            b = self.operand(st, rv["b"])
            op = rv["op"]
            if a != TOP and b != TOP and len(a) == 1 and len(b) == 1:
                (ta,) = a
                (tb,) = b
                if ta[0] == "i" and tb[0] == "i":
                    x, y = ta[1], tb[1]
                    r = {"Eq": x == y, "Ne": x != y, "Lt": x < y, "Le": x <= y, "Gt": x > y, "Ge": x >= y}.get(op)
                    if r is not None:
                        return av_int(int(r))
                    if op in ("BitAnd", "BitOr", "BitXor") and x in (0, 1) and y in (0, 1):
                        return av_int({"BitAnd": x & y, "BitOr": x | y, "BitXor": x ^ y}[op])
            if op in ("Eq", "Ne", "Lt", "Le", "Gt", "Ge"):
                return BOOL_ANY
            return TOP
        if k == "unop":
            a = self.operand(st, rv["a"])
            if rv["op"] == "Not" and a != TOP and all(t[0] == "i" and t[1] in (0, 1) for t in a):
                if dst is not None and op_place(rv["a"]) is not None:
                    src = pl_local(op_place(rv["a"]))
                    if src in self.cond:
                        pl, tset, fset = self.cond[src]
                        self.cond[dst] = (pl, fset, tset)
                return frozenset(("i", 1 - t[1]) for t in a)
            return TOP
        if k == "discr":
            v = self.read(st, rv["place"])
            if v == TOP:
                return TOP
            out = set()
            for t in v:
                if t[0] == "a":
                    out.add(("i", self.e.discr_of(t[1], t[2])))
                else:
                    return TOP
            return frozenset(out)
        if k == "agg":
            if rv["ak"] == "adt":
                return frozenset([("a", rv["adt"], rv["vi"], rv["variant"],
                                   tuple(self.operand(st, o) for o in rv["ops"]))])
            if rv["ak"] == "tuple":
                return frozenset([("t", tuple(self.operand(st, o) for o in rv["ops"]))])
            return frozenset([("o", "agg:" + rv["ak"])])
        return TOP

    # ---- refinement
    def update_path(self, av, elems, f, ty=None):
        """Return av with the sub-value at `elems` replaced by f(sub); shapes whose sub-value
        becomes empty are dropped."""
        if not elems:
            return f(av)
        if av == TOP or av is None:
            return av
        el = elems[0]
        out = set()
        for t in av:
            if el.startswith("as#"):
                vi = int(el.rsplit("#", 1)[1])
                if t[0] == "a" and t[2] == vi:
                    # next element must be a field
                    if len(elems) >= 2 and elems[1].startswith("."):
                        name = elems[1][1:].split("@")[0]
                        fi = self.e.field_index(t[1], t[2], name)
                        if fi is None or fi >= len(t[4]):
                            out.add(t)
                            continue
                        nf = self.update_path(t[4][fi], elems[2:], f)
                        if nf is not None and nf != TOP and len(nf) == 0:
                            continue
                        fl = list(t[4])
                        fl[fi] = nf
                        out.add(("a", t[1], t[2], t[3], tuple(fl)))
                    else:
                        out.add(t)
                else:
                    out.add(t)
            elif el.startswith("."):
                name = el[1:].split("@")[0]
                if t[0] == "a":
                    fi = self.e.field_index(t[1], t[2], name)
                    if fi is None or fi >= len(t[4]):
                        out.add(t)
                        continue
                    nf = self.update_path(t[4][fi], elems[1:], f)
                    if nf is not None and nf != TOP and len(nf) == 0:
                        continue
                    fl = list(t[4])
                    fl[fi] = nf
                    out.add(("a", t[1], t[2], t[3], tuple(fl)))
                elif t[0] == "t" and name.isdigit() and int(name) < len(t[1]):
                    fi = int(name)
                    nf = self.update_path(t[1][fi], elems[1:], f)
                    if nf is not None and nf != TOP and len(nf) == 0:
                        continue
                    fl = list(t[1])
                    fl[fi] = nf
                    out.add(("t", tuple(fl)))
                else:
                    out.add(t)
            elif el == "*":
                if t[0] == "rv":
                    nf = self.update_path(t[1], elems[1:], f)
                    if nf is not None and nf != TOP and len(nf) == 0:
                        continue
                    out.add(("rv", nf))
                else:
                    out.add(t)
            else:
                out.add(t)
        return frozenset(out)

    def refine(self, st, place, f):
        """Refine the value at `place` with f (AV->AV).  Returns False if it becomes empty."""
        l = pl_local(place)
        elems = list(pl_proj(place))
        # follow leading derefs through frame pointers
        hops = 0
        while elems and elems[0] == "*" and hops < 4:
            cur = st.get(l, TOP)
            if cur != TOP and cur is not None and len(cur) == 1:
                (t,) = cur
                if t[0] == "r":
                    l = t[1]
                    elems = elems[1:]
                    hops += 1
                    continue
            break
        cur = st.get(l, TOP)
        new = self.update_path(cur, elems, f)
        if new is None:
            return True
        if new != TOP and len(new) == 0:
            return False
        st[l] = new
        return True

    # ---- main loop
    def pkey(self, bb, st):
        if not self.part:
            return bb
        k = []
        for l in self.part:
            v = st.get(l)
            if v is not None and v != TOP and len(v) == 1 and next(iter(v))[0] == "i":
                k.append(next(iter(v))[1])
            else:
                k.append(None)
        return (bb, tuple(k))

    def go(self):
        res = self.res
        st0 = dict(self.params)
        k0 = self.pkey(0, st0)
        instate = {k0: st0}
        work = deque([k0])
        inq = {k0}
        iters = 0
        while work:
            key = work.popleft()
            inq.discard(key)
            bb = key[0] if self.part else key
            iters += 1
            if iters > 40000:
                res.budget_exceeded = True
                break
            st = dict(instate[key])
            res.feasible.add(bb)
            outs = self.transfer(bb, st)
            for (tgt, s2) in outs:
                tk = self.pkey(tgt, s2)
                old = instate.get(tk)
                if old is None:
                    instate[tk] = s2
                    changed = True
                else:
                    changed = False
                    for k, v in s2.items():
                        ov = old.get(k)
                        nv = join(ov, v) if ov is not None else v
                        # a local absent on one path is treated as bottom
                        if nv != ov:
                            old[k] = nv
                            changed = True
                if changed and tk not in inq:
                    work.append(tk)
                    inq.add(tk)
        # block-level view: join partitions
        if self.part:
            merged = {}
            for (bb, _), stt in instate.items():
                m = merged.setdefault(bb, {})
                for k, v in stt.items():
                    m[k] = join(m.get(k), v) if k in m else v
            res.instate = merged
        else:
            res.instate = instate
        return res

    def transfer(self, bb, st):
        b = self.b
        bl = self.blocks[bb]
        for s in bl["stmts"]:
            if s["k"] == "assign":
                p = s["place"]
                dst = p if isinstance(p, int) else None
                v = self.rvalue(st, s["rv"], dst)
                self.assign(st, p, v)
                if dst is not None and s["rv"]["k"] == "use":
                    src = op_place(s["rv"]["op"])
                    if isinstance(src, int) and src in self.cond:
                        self.cond[dst] = self.cond[src]
            elif s["k"] == "setdiscr":
                self.assign(st, s["place"], TOP)
        t = bl["term"]
        k = t["k"]
        if k == "goto":
            return [(t["target"], st)]
        if k == "return":
            v = st.get(0, TOP)
            self.res.ret = join(self.res.ret, self.snapshot(st, v))
            return []
        if k in ("drop",):
            return [(t["target"], st)]
        if k == "assert":
            return [(t["target"], st)]
        if k == "switch":
            return self.switch(bb, st, t)
        if k == "call":
            return self.call(bb, st, t)
        return []

    def assign(self, st, place, v):
        if isinstance(place, int):
            st[place] = depth_cap(v)
            return
        l = pl_local(place)
        elems = pl_proj(place)
        if elems == ["*"]:
            cur = st.get(l, TOP)
            if cur != TOP and cur is not None and len(cur) == 1:
                (t,) = cur
                if t[0] == "r":
                    st[t[1]] = depth_cap(v)
                    return
            if cur != TOP and cur is not None:
                for t in cur:
                    if t[0] == "r":
                        st[t[1]] = join(st.get(t[1], TOP), v)
                return
            return
        if elems and elems[0] == "*":
            cur = st.get(l, TOP)
            if cur != TOP and cur is not None:
                for t in cur:
                    if t[0] == "r":
                        st[t[1]] = TOP
            return
        # field write on a local aggregate
        cur = st.get(l)
        if cur is not None and cur != TOP and len(elems) == 1 and elems[0].startswith("."):
            new = self.update_path(cur, elems, lambda _old: v)
            st[l] = new
        else:
            st[l] = TOP

    def switch(self, bb, st, t):
        b = self.b
        o = t["op"]
        l = pl_local(op_place(o)) if op_place(o) is not None else None
        val = self.operand(st, o)
        # is the switched temp a discriminant of a place?
        dplace = None
        dty = None
        for s in reversed(self.blocks[bb]["stmts"]):
            if s["k"] == "assign" and s["place"] == l and s["rv"]["k"] == "discr":
                dplace = s["rv"]["place"]
                dty = s["rv"]["ty"]
                break
        listed = [v for v, _ in t["targets"]]
        edges = [(v, tg) for v, tg in t["targets"]] + [(None, t["otherwise"])]
        outs = []
        for v, tg in edges:
            # feasibility by switched value
            if val != TOP and val is not None:
                ints = [x[1] for x in val if x[0] == "i"]
                if len(ints) == len(val):
                    if v is not None and v not in ints:
                        continue
                    if v is None and all(i in listed for i in ints):
                        continue
            s2 = dict(st)
            ok = True
            if l is not None and isinstance(op_place(o), int):
                if v is not None:
                    s2[l] = av_int(v)
                elif val != TOP and val is not None:
                    s2[l] = frozenset(x for x in val if not (x[0] == "i" and x[1] in listed))
            if dplace is not None:
                e = self.e

                def keep(av, v=v):
                    if av == TOP or av is None:
                        ex = e.expand_top(dty) if dty else None
                        if ex is None:
                            return av
                        av = ex
                    if v is not None:
                        return frozenset(x for x in av if x[0] != "a" or e.discr_of(x[1], x[2]) == v)
                    return frozenset(x for x in av if x[0] != "a" or e.discr_of(x[1], x[2]) not in listed)
                ok = self.refine(s2, dplace, keep)
            elif l in self.cond and isinstance(op_place(o), int):
                pl, tset, fset = self.cond[l]
                truth = None
                if v is not None:
                    truth = (v != 0)
                elif listed == [0]:
                    truth = True
                if truth is not None:
                    want = tset if truth else fset

                    def keep2(av, want=want):
                        if av == TOP or av is None:
                            return av
                        return frozenset(x for x in av if x[0] != "a" or x[2] in want)
                    ok = self.refine(s2, pl, keep2)
            if ok:
                outs.append((tg, s2))
        return outs

    # ---- calls
    def call(self, bb, st, t):
        b = self.b
        c = Call(b, bb, t)
        args = [self.operand(st, a) for a in c.args]
        self.res.call_args[bb] = [self.snapshot(st, a) for a in args]
        ret = None
        if self.e.oracle:
            ret = self.e.oracle(c, self.res.call_args[bb], self)
        if ret is None:
            ret = self.builtin(c, st, args, bb)
        if ret is None:
            ret = self.enter(c, st, args)
        if ret is None:
            ret = frozenset([("o", "call:" + (c.callee_q or c.decl_q or "indirect"))])
        # havoc locals whose &mut escapes into the call
        for a, ao in zip(args, c.args):
            p = op_place(ao)
            if p is None or a == TOP or a is None:
                continue
            ty = b.local_ty(pl_local(p)) if isinstance(p, int) else ""
            if re.match(r"^&('\w+ )?mut ", ty):
                for x in a:
                    if x[0] == "r":
                        st[x[1]] = TOP
        if isinstance(ret, frozenset) and len(ret) == 0:
            self.res.call_ret[bb] = ret
            return []   # callee never returns
        self.res.call_ret[bb] = ret
        if c.target is None:
            return []
        self.assign(st, c.dest, ret)
        return [(c.target, st)]

    def enter(self, c, st, args):
        if self.depth >= self.e.max_depth:
            return None
        if c.rk not in ("item",) or not c.callee_q:
            return None
        bodies = self.e.fx.by_q.get(c.callee_q, [])
        if len(bodies) != 1:
            return None
        cb = bodies[0]
        if not self.e.enter(cb):
            return None
        sargs = [self.snapshot(st, a) for a in args]
        if cb.local_ty(0) == "bool" and isinstance(c.dest, int):
            for i, a in enumerate(args):
                if a == TOP or a is None or len(a) != 1:
                    continue
                (pt,) = a
                if pt[0] != "r":
                    continue
                tv = st.get(pt[1], TOP)
                if tv == TOP or tv is None or not (2 <= len(tv) <= 8) or not all(t[0] == "a" for t in tv):
                    continue
                tset, fset = set(), set()
                tot = None
                for shape in tv:
                    sa = list(sargs)
                    sa[i] = frozenset([("rv", self.snapshot(st, frozenset([shape])))])
                    r = self.e.summary(cb, sa, self.depth + 1)
                    tot = join(tot, r)
                    if r == TOP or r is None or ("i", 1) in r or any(t[0] != "i" for t in r):
                        tset.add(shape[2])
                    if r == TOP or r is None or ("i", 0) in r or any(t[0] != "i" for t in r):
                        fset.add(shape[2])
                self.cond[c.dest] = (pt[1], frozenset(tset), frozenset(fset))
                return tot
        return self.e.summary(cb, sargs, self.depth + 1)

    def variant_set(self, av, names):
        """True/False/None: are all shapes of av within variant names?"""
        if av == TOP or av is None or not av:
            return None
        ins = [t[0] == "a" and t[3] in names for t in av]
        if all(ins):
            return True
        if not any(ins) and all(t[0] == "a" for t in av):
            return False
        return None

    def builtin(self, c, st, args, bb):
        q = c.callee_q or c.decl_q or ""

        def d0():
            return self.deref(st, args[0]) if args else TOP
        m = re.search(r"(Option|Result)::(is_some|is_none|is_ok|is_err)$", q)
        if m:
            v = d0()
            names = {"is_some": {"Some"}, "is_none": {"None"}, "is_ok": {"Ok"}, "is_err": {"Err"}}[m.group(2)]
            r = self.variant_set(v, names)
            # remember correlation bool -> place for later refinement
            if isinstance(c.dest, int) and args and args[0] != TOP and args[0] is not None and len(args[0]) == 1:
                (pt,) = args[0]
                if pt[0] == "r":
                    vi_true = {"is_some": {1}, "is_none": {0}, "is_ok": {0}, "is_err": {1}}[m.group(2)]
                    self.cond[c.dest] = (pt[1], frozenset(vi_true), frozenset({0, 1}) - frozenset(vi_true))
            if r is None:
                return BOOL_ANY
            return av_int(int(r))
        if re.search(r"PartialEq(<[^>]*>)?>?::(eq|ne)$", q) and len(args) == 2:
            a = self.deref(st, args[0])
            bq = self.deref(st, args[1])
            # peel one more reference level if both are refs
            for _ in range(2):
                if a != TOP and a and all(t[0] in ("r", "rv") for t in a):
                    a = self.deref(st, a)
                if bq != TOP and bq and all(t[0] in ("r", "rv") for t in bq):
                    bq = self.deref(st, bq)
            neg = q.endswith("::ne")
            if a != TOP and bq != TOP and a and bq and len(a) == 1 and len(bq) == 1:
                (ta,) = a
                (tb,) = bq
                simple = lambda t: t[0] in ("i", "s") or (t[0] == "a" and len(t[4]) == 0)
                if simple(ta) and simple(tb):
                    eq = (ta == tb)
                    return av_int(int(eq != neg))
            if a != TOP and bq != TOP and a and bq:
                # disjoint fieldless sets are unequal
                simple = lambda t: t[0] in ("i", "s") or (t[0] == "a" and len(t[4]) == 0)
                if all(simple(t) for t in a) and all(simple(t) for t in bq) and not (a & bq):
                    return av_int(int(neg))
            return BOOL_ANY
        if re.search(r"(Clone>?::clone|ToOwned>?::to_owned|Borrow<[^>]*>>?::borrow|Deref>?::deref|AsRef<[^>]*>>?::as_ref)$", q) and re.search(r"(Option|Result|clap_|&)", c.targs[0] if c.targs else ""):
            return d0() if not q.endswith("deref") and not q.endswith("as_ref") and not q.endswith("borrow") else None
        if re.search(r"Option::(unwrap|expect|unwrap_unchecked)$", q) or re.search(r"Result::(unwrap|expect)$", q):
            v = args[0] if args else TOP
            if v == TOP or v is None:
                self.res.panic_feasible[bb] = "unknown"
                return None
            good = "Some" if "Option" in q else "Ok"
            out = None
            bad = False
            for t in v:
                if t[0] == "a" and t[3] == good:
                    out = join(out, t[4][0] if t[4] else TOP)
                elif t[0] == "a":
                    bad = True
                else:
                    bad = True
                    out = TOP
            if bad:
                self.res.panic_feasible[bb] = "may be " + ("None" if good == "Some" else "Err")
            return out if out is not None else frozenset()
        if re.search(r"Option::(as_ref|as_mut|as_deref|as_deref_mut|copied|cloned)$", q):
            v = d0() if re.search(r"as_ref|as_mut|as_deref", q) else (args[0] if args else TOP)
            if v == TOP or v is None:
                return None
            out = set()
            for t in v:
                if t[0] == "a" and t[3] == "Some":
                    inner = t[4][0]
                    if q.endswith(("as_ref", "as_mut")):
                        inner = frozenset([("rv", inner)])
                    elif q.endswith(("copied", "cloned")):
                        inner = self.deref(st, inner)
                    else:
                        inner = TOP
                    out.add(("a", t[1], t[2], t[3], (inner,)))
                elif t[0] == "a":
                    out.add(t)
                else:
                    return None
            return frozenset(out)
        if re.search(r"Option::(map|and_then|filter|or_else|or)$", q) or re.search(r"Result::(map|map_err|and_then|ok|err)$", q):
            v = args[0] if args else TOP
            if v == TOP or v is None:
                return None
            meth = q.rsplit("::", 1)[1]
            out = set()
            for t in v:
                if t[0] != "a":
                    return None
                if "Option" in q:
                    if t[3] == "None":
                        if meth in ("or_else", "or"):
                            return None
                        out.add(t)
                    else:
                        if meth == "map":
                            out.add(("a", t[1], t[2], t[3], (TOP,)))
                        elif meth in ("or_else", "or"):
                            out.add(t)
                        else:
                            out.add(("a", t[1], 0, "None", ()))
                            out.add(("a", t[1], t[2], t[3], (TOP,) if meth != "filter" else t[4]))
                else:
                    if meth == "map":
                        out.add(t if t[3] == "Err" else ("a", t[1], t[2], t[3], (TOP,)))
                    elif meth == "map_err":
                        out.add(t if t[3] == "Ok" else ("a", t[1], t[2], t[3], (TOP,)))
                    elif meth == "ok":
                        out.add(("a", "std::option::Option", 1, "Some", t[4]) if t[3] == "Ok" else ("a", "std::option::Option", 0, "None", ()))
                    elif meth == "err":
                        out.add(("a", "std::option::Option", 1, "Some", t[4]) if t[3] == "Err" else ("a", "std::option::Option", 0, "None", ()))
                    else:
                        if t[3] == "Err":
                            out.add(t)
                        else:
                            return None
            return frozenset(out)
        if re.search(r"Try>?::branch$", q):
            v = args[0] if args else TOP
            if v == TOP or v is None:
                return None
            out = set()
            CF = "std::ops::control_flow::ControlFlow"
            for t in v:
                if t[0] != "a":
                    return None
                if t[3] in ("Some", "Ok"):
                    out.add(("a", CF, 0, "Continue", (t[4][0] if t[4] else TOP,)))
                else:
                    out.add(("a", CF, 1, "Break", (frozenset([t]),)))
            return frozenset(out)
        if re.search(r"FromResidual(<[^>]*>)?>?::from_residual$", q):
            v = args[0] if args else TOP
            if v == TOP or v is None:
                return None
            out = set()
            for t in v:
                if t[0] == "a" and t[3] == "None":
                    out.add(("a", "std::option::Option", 0, "None", ()))
                elif t[0] == "a" and t[3] == "Err":
                    out.add(("a", "std::result::Result", 1, "Err", (TOP,)))
                else:
                    return None
            return frozenset(out)
        if re.search(r"(panicking::panic|panicking::panic_fmt|panicking::assert_failed|panic_display|unreachable_display|option::expect_failed|result::unwrap_failed|panic_explicit|panicking::begin_panic|process::exit|process::abort)", q):
            return frozenset()
        return None


# ----------------------------------------------------------------------------- helpers for rules

def fmt_av(av, d=0):
    if av == TOP or av is None:
        return "T"
    parts = []
    for t in sorted(av, key=repr):
        if t[0] == "i":
            parts.append(str(t[1]))
        elif t[0] == "s":
            parts.append(repr(t[1]))
        elif t[0] == "a":
            name = t[1].rsplit("::", 1)[-1] + "::" + t[3]
            if t[4] and d < 2:
                name += "(" + ",".join(fmt_av(f, d + 1) for f in t[4]) + ")"
            parts.append(name)
        elif t[0] == "t":
            parts.append("(" + ",".join(fmt_av(f, d + 1) for f in t[1]) + ")")
        elif t[0] in ("r",):
            parts.append("&_%d" % t[1])
        elif t[0] == "rv":
            parts.append("&" + fmt_av(t[1], d + 1))
        else:
            parts.append(t[1])
    return "{" + "|".join(parts) + "}"


def variants_in(av, strip_wrappers=("Ok", "Some")):
    """Set of variant names possibly held, looking through Ok(..)/Some(..) wrappers and refs.
    Returns None for TOP."""
    if av == TOP or av is None:
        return None
    out = set()
    for t in av:
        if t[0] == "rv":
            r = variants_in(t[1], strip_wrappers)
            if r is None:
                return None
            out |= r
        elif t[0] == "a":
            if t[3] in strip_wrappers and t[4]:
                r = variants_in(t[4][0], strip_wrappers)
                if r is None:
                    return None
                out |= r
            else:
                out.add(t[3])
        else:
            return None
    return out
