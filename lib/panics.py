"""PANIC(scope) — inventory of explicit panic operations in MIR and their local discharge (P9 + G/T/V).

A *site* is one MIR construct that can panic:
  panic   call into core::panicking (panic!/unreachable!/assert!/unimplemented!/todo! expansions, slice index failures)
  unwrap  Option/Result::{unwrap,expect,unwrap_err,expect_err}
  index   Index::index / index_mut calls (slices, str, Vec, maps, workspace Index impls)
  sliceop split_at / remove / insert / swap_remove / drain / split_off / copy_from_slice / RefCell borrow
  arith   Assert(Overflow(Sub|Neg|Add|Mul..), DivisionByZero, RemainderByZero)
  bounds  Assert(BoundsCheck)
Sites produced by debug_assert*! expansions are the validity gate of C01 and are not sites.

Discharge classes computed here (exact, local):
  const   operands are constants satisfying the check
  G       a dominating guard on the same canonical expression (is_some/is_ok/variant arm/comparison)
  T       payload type is uninhabited (Result<_, Infallible>)
  V       the block is infeasible / the value is provably the good variant under variant-set analysis
  growth  unsigned Add/Mul of lengths, counters and small constants (assumption: they stay below 2^64)
Everything else is *residual* and must be matched by an audit table entry or is reported.
"""
import re
from collections import Counter, defaultdict

from facts import *      # noqa
from rulekit import *    # noqa
import vset

PANIC_FN = re.compile(
    r"(^core::panicking::|^std::rt::panic|^std::panicking::|::panic_fmt$|::panic_display$|::panic_explicit$|::panic_nounwind|"
    r"option::expect_failed$|option::unwrap_failed$|result::unwrap_failed$|slice::index::slice_\w+_fail|str::slice_error_fail|"
    r"::unreachable_display$|::assert_failed|cell::panic_already|alloc::raw_vec::capacity_overflow|::begin_panic)")
UNWRAP_FN = re.compile(r"^std::(option::Option|result::Result)::(unwrap|expect|unwrap_err|expect_err)$")
INDEX_FN = re.compile(r"ops::index::Index(Mut)?(<[^>]*>)?>?::index(_mut)?$")
SLICEOP_FN = re.compile(
    r"(^str::split_at$|^\[T\]::split_at$|^\[T\]::split_at_mut$|^std::vec::Vec::(remove|insert|swap_remove|drain|split_off)$|"
    r"^std::string::String::(remove|insert|insert_str|drain|split_off|replace_range)$|^\[T\]::copy_from_slice$|^\[T\]::swap$|"
    r"^std::cell::RefCell::(borrow|borrow_mut)$|^std::collections::VecDeque::(remove|insert|swap)$|^\[T\]::(chunks|windows|chunks_exact)$|"
    r"^std::iter::Iterator::step_by$|^char::from_digit$|^std::time::Instant::(sub|add)|^\[T\]::(first|last)_chunk)")
DEBUG_GATE_MACROS = ("debug_assert", "debug_assert_eq", "debug_assert_ne")
ANY = object()
GROWTH_WATCH = re.compile(r"max_values|term_w|term_width|get_index|display_order|usize::MAX|u64::MAX")


OPT_FEED = re.compile(r"(option::Option|Option)(<[^>]*>)?::(map|and_then|is_some_and|is_none_or|map_or|map_or_else|filter|inspect|then|unwrap_or_else|or_else|take_if)$")
RES_FEED = re.compile(r"(result::Result|Result)(<[^>]*>)?::(map|and_then|is_ok_and|map_or|map_or_else|inspect)$")
ITER_FEED = re.compile(r"Iterator>?::(find|any|all|filter|map|filter_map|flat_map|position|for_each|find_map|take_while|skip_while|map_while|inspect|max_by_key|min_by_key|fold|partition|rposition)$")


def resolved_operand(body, e, depth=0):
    """Operand expression of a site inside a closure, written in the enclosing function's terms: captured variables
    (`arg1.N`) become the captured expressions, the closure's own parameter becomes the payload / the element of what the
    closure is applied to (`o.map(|k| ..)`: k = o#Some.0; `it.find(|x| ..)`: x = elem(it)).  The provenance class (and with it
    the audit key) of a panic site is then the same whether the code sits in a closure or inline in the function."""
    if e is None or body.kind != "Closure" or body.parent is None or depth > 3:
        return e
    par = body.parent
    caps = None
    for i, j, st in par.stmts():
        if st["k"] == "assign" and st["rv"]["k"] == "agg" and st["rv"].get("ak") == "closure" and st["rv"].get("def") == body.defi:
            caps = [expr(par, o) for o in st["rv"]["ops"]]
            break
    feed = closure_feed(None, body)
    sub = {}
    if caps is not None:
        for n, ce in enumerate(caps):
            sub["arg1.%d" % n] = ce
    if feed:
        recv = feed[2]
        c = feed[1]
        pay = None
        if c.is_(OPT_FEED.pattern):
            pay = recv + "#Some.0"
        elif c.is_(RES_FEED.pattern):
            pay = recv + "#Ok.0"
        elif c.is_(ITER_FEED.pattern):
            # the same spelling a `for` loop over the receiver gives its loop variable
            pay = "next(into_iter(%s))#Some.0" % recv
        if pay and body.argc >= 2:
            nm = body.local_name(2)
            sub[nm or "arg2"] = pay
            sub["arg2"] = pay
    if not sub:
        return e
    keys = sorted(sub, key=len, reverse=True)
    rx = re.compile(r"(?<![\w.#])(" + "|".join(re.escape(k) for k in keys) + r")(?![\w(])")
    # `arg1.0` must win over a parameter called `arg1`; the lookbehind keeps field names (`.index`) untouched
    out = rx.sub(lambda m: sub[m.group(1)], e)
    return resolved_operand(par, out, depth + 1)


class Site:
    __slots__ = ("body", "bb", "kind", "what", "operand", "prov", "sp", "macro", "discharge", "detail")

    def __init__(self, body, bb, kind, what, operand, sp, macro=None):
        self.body = body
        self.bb = bb
        self.kind = kind
        self.what = what
        self.operand = operand
        self.sp = sp
        self.macro = macro
        self.discharge = None
        self.detail = ""
        self.prov = prov_class(resolved_operand(body, operand))

    def module(self):
        """File-level module of the owning body (qname without the item/impl tail)."""
        return module_of(self.body)

    def audit_key(self):
        return "%s|%s|%s|%s" % (self.module(), self.kind, self.what, self.prov)

    def where(self):
        return "%s in %s" % (sp_str(self.sp), self.body.q)


def module_of(body):
    f = body.file
    f = re.sub(r"^.*?(clap[a-z_]*)/src/", lambda m: m.group(1) + "::", f)
    f = re.sub(r"(/mod)?\.rs$", "", f).replace("/", "::")
    if f.endswith("::lib"):
        f = f[:-5]
    return f


def _head(e):
    e = e.strip()
    if re.fullmatch(r"-?\d+", e):
        return "const"
    m = re.match(r"^([A-Za-z_][\w:]*)\(", e)
    if m:
        # suffix projections after the closing paren of the head call (e.g. #Some.0) are dropped
        return m.group(1).split("::")[-1]
    m = re.match(r"^[A-Za-z_]\w*((\.[A-Za-z_0-9]+)+)", e)
    if m:
        return "local" + m.group(1)
    return "local"


def prov_class(e):
    """Provenance class of an operand expression: the outermost producer of each top-level piece
    (call name / field path / const / local) — no local variable names, no nesting."""
    if e is None:
        return ""
    pieces = []
    for part in e.split(" ; "):
        if part.endswith("]") and "[" in part and not part.startswith("["):
            # index expression  base[idx]
            i = part.index("[")
            base, idx = part[:i], part[i + 1:-1]
            st = split_top("X(" + idx + ")")
            pieces.append(_head(base) + "[" + ",".join(_head(x) for x in (st[1] if st else [idx])) + "]")
            continue
        st = split_top("X(" + part + ")")
        pieces.append(",".join(_head(x) for x in (st[1] if st else [part])))
    return ";".join(pieces)


def sites_of(body):
    out = []
    live = body.reachable(0)
    for i, bl in enumerate(body.blocks):
        if i not in live or bl["cleanup"]:
            continue
        t = bl["term"]
        k = t["k"]
        sp = t.get("sp")
        mac = sp_macro(sp)
        if k == "call":
            c = Call(body, i, t)
            q = c.callee_q or c.decl_q or ""
            if mac in DEBUG_GATE_MACROS:
                continue
            if PANIC_FN.search(q):
                what = mac or q.rsplit("::", 1)[-1]
                if what.startswith("$crate::"):
                    what = what.split("::")[-1]
                out.append(Site(body, i, "panic", what, None, sp, mac))
            elif UNWRAP_FN.search(q):
                out.append(Site(body, i, "unwrap", q.rsplit("::", 1)[-1], expr(body, c.args[0]), sp, mac))
            elif INDEX_FN.search(q) or (c.decl_q and INDEX_FN.search(c.decl_q)):
                selfty = c.targs[0] if c.targs else "?"
                idxty = c.targs[1] if len(c.targs) > 1 else "?"
                what = "index<%s>[%s]" % (vset.ty_head(selfty), vset.ty_head(idxty))
                e = "%s[%s]" % (expr(body, c.args[0]), expr(body, c.args[1]) if len(c.args) > 1 else "?")
                out.append(Site(body, i, "index", what, e, sp, mac))
            elif SLICEOP_FN.search(q):
                e = ",".join(expr(body, a) for a in c.args)
                out.append(Site(body, i, "sliceop", q.rsplit("::", 1)[-1], e, sp, mac))
        elif k == "assert":
            if mac in DEBUG_GATE_MACROS:
                continue
            msg = t["msg"]
            if msg.startswith("Overflow") or msg in ("OverflowNeg", "DivisionByZero", "RemainderByZero"):
                a = expr(body, t["a"]) if "a" in t else "?"
                b = expr(body, t["b"]) if "b" in t else ""
                s = Site(body, i, "arith", msg, "%s ; %s" % (a, b), sp, mac)
                s.detail = (a, b, t.get("ty", ""))
                out.append(s)
            elif msg == "BoundsCheck":
                a = expr(body, t["a"])
                b = expr(body, t["b"])
                s = Site(body, i, "bounds", msg, "%s ; %s" % (a, b), sp, mac)
                s.detail = (a, b, "")
                out.append(s)
    return out


def _is_int(s):
    return re.fullmatch(r"-?\d+", s or "") is not None


def discharge_local(site, vres=None):
    """Try the exact local discharges; sets site.discharge and returns it."""
    body, bb = site.body, site.bb
    if vres is not None and bb not in vres.feasible:
        site.discharge = "V"
        site.detail = "block infeasible under variant-set analysis"
        return "V"
    if site.kind == "panic":
        # contradictory dominating guards: the arm is dead (e.g. `[] => unreachable!()` under `!is_empty()`)
        gl = guards(body, bb)
        for pol, ge, _ in gl:
            m = re.fullmatch(r"is_empty\((.*)\)", ge)
            if pol == "F" and m:
                x = re.escape(m.group(1))
                if any(p2 == "T" and re.fullmatch(r"Eq\((PtrMetadata|len)\(%s\),0\)" % x, g2) for p2, g2, _ in gl):
                    site.discharge = "G"
                    site.detail = "dominating guards contradict: !is_empty(%s) and len == 0" % m.group(1)
                    return "G"
        return None
    if site.kind == "unwrap":
        t = body.blocks[bb]["term"]
        c = Call(body, bb, t)
        e = site.operand
        argty = body.local_ty(op_local(c.args[0])) if op_place(c.args[0]) is not None else ""
        if "std::convert::Infallible>" in argty and site.what in ("unwrap", "expect"):
            site.discharge = "T"
            site.detail = "error type is uninhabited: " + argty
            return "T"
        is_opt = "Option" in (c.callee_q or "")
        good = ("is_some(%s)" % e) if is_opt else ("is_ok(%s)" % e)
        bad = ("is_none(%s)" % e) if is_opt else ("is_err(%s)" % e)
        if site.what in ("unwrap_err", "expect_err"):
            good, bad = bad, good
        for pol, ge, _ in guards(body, bb):
            if (pol == "T" and ge == good) or (pol == "F" and ge == bad):
                site.discharge = "G"
                site.detail = "dominated by %s:%s" % (pol, ge)
                return "G"
            want_v = ("V1" if is_opt else "V0") if site.what in ("unwrap", "expect") else ("V0" if is_opt else "V1")
            if pol == want_v and ge == e:
                site.discharge = "G"
                site.detail = "inside the matching variant arm of %s" % ge
                return "G"
        m = re.fullmatch(r"(first|last|pop|last_mut|first_mut)\((?:deref(?:_mut)?\()?(.*?)\)?\)", e or "")
        if m and is_opt:
            base = m.group(2)
            cf = cmp_facts(body, bb)
            ln = "len(%s)" % base
            nonempty = has_bool(body, bb, "F", r"^is_empty\(%s\)$" % re.escape(base)) \
                or any(o in ("Gt", "Ge", "Eq") and a == ln and _is_int(b2) and int(b2) >= (0 if o == "Gt" else 1) for (o, a, b2) in cf) \
                or any(pol.startswith("=") and pol[1:].isdigit() and int(pol[1:]) >= 1 and ge == ln for pol, ge, _ in guards(body, bb))
            if nonempty:
                site.discharge = "G"
                site.detail = "collection known non-empty here"
                return "G"
        if vres is not None and bb in vres.feasible and bb not in vres.panic_feasible and bb in vres.call_args:
            a0 = vres.call_args[bb][0]
            if a0 != vset.TOP and a0:
                site.discharge = "V"
                site.detail = "operand is %s on every path" % vset.fmt_av(a0)
                return "V"
        return None
    if site.kind == "arith":
        a, b, ty = site.detail
        msg = site.what
        cf = cmp_facts(body, bb)
        if msg == "Overflow(Sub)":
            if _is_int(a) and _is_int(b) and int(a) >= int(b):
                site.discharge = "const"
                return "const"
            if ("Ge", a, b) in cf or ("Gt", a, b) in cf:
                site.discharge = "G"
                site.detail = "dominated by %s >= %s" % (a, b)
                return "G"
            if b == "1" and (("Ne", a, "0") in cf or ("Gt", a, "0") in cf or ("Ge", a, "1") in cf):
                site.discharge = "G"
                site.detail = "dominated by %s != 0" % a
                return "G"
            if b == "1":
                m = re.fullmatch(r"len\((.*)\)", a)
                if m and has_bool(body, bb, "F", r"^is_empty\(%s\)$" % re.escape(m.group(1))):
                    site.discharge = "G"
                    site.detail = "dominated by !is_empty"
                    return "G"
            m = re.fullmatch(r"Add\((.*),(\d+)\)", a)
            if m and _is_int(b) and int(m.group(2)) >= int(b):
                site.discharge = "const"
                site.detail = "(x + %s) - %s" % (m.group(2), b)
                return "const"
            if ty.startswith("i"):
                site.discharge = "growth"
                site.detail = "signed subtraction of bounded quantities"
                return "growth"
            return None
        if msg in ("Overflow(Add)", "Overflow(Mul)", "Overflow(Shl)", "Overflow(Shr)"):
            if GROWTH_WATCH.search(a + " " + b):
                return None
            site.discharge = "growth"
            site.detail = "sum/product of lengths, counters and small constants"
            return "growth"
        if msg in ("DivisionByZero", "RemainderByZero"):
            if _is_int(a) and int(a) != 0:
                site.discharge = "const"
                return "const"
            return None
        return None
    if site.kind == "bounds":
        ln, idx, _ = site.detail
        cf = cmp_facts(body, bb)
        if ("Lt", idx, ln) in cf:
            site.discharge = "G"
            return "G"
        if _is_int(ln) and _is_int(idx) and int(idx) < int(ln):
            site.discharge = "const"
            return "const"
        return None
    if site.kind == "sliceop" and site.what in ("split_at", "split_at_mut", "split_at_checked"):
        # bytes/str of X cut at an index that is a char_indices() position of a prefix of X, or valid_up_to() of X's own UTF-8 error:
        # both are <= len(X) (std), so the cut cannot be out of range  [the char-boundary side is R13.1's business]
        parts = split_top("X(" + (site.operand or "") + ")")
        args_ = parts[1] if parts else []
        if len(args_) == 2:
            base, idx = args_
            mb = re.fullmatch(r"(?:as_encoded_bytes|as_bytes)\((.*)\)", base)
            x = mb.group(1) if mb else base
            m1 = re.fullmatch(r"next\((.*)\.utf8_prefix\)#Some\.0\.0", idx)
            m2 = re.fullmatch(r"valid_up_to\(try_str\((.*)\)#Err\.0\)", idx)
            if (m1 and x == m1.group(1) + ".inner") or (m2 and x == m2.group(1)):
                site.discharge = "G"
                site.detail = "cut index is a char_indices()/valid_up_to() position of the same string (<= its length)"
                return "G"
        return None
    if site.kind == "index":
        # full-range indexing never panics
        if re.search(r"\[RangeFull", site.operand or ""):
            site.discharge = "const"
            site.detail = "RangeFull"
            return "const"
        m = re.fullmatch(r"(.*?)\[RangeFrom::RangeFrom\((.*)\)\]", site.operand or "")
        if m:
            base, start = m.group(1), m.group(2)
            ln = "len(%s)" % base
            if start in ("min(%s,%s)" % (x, y) for x, y in ((ln, ANY), (ANY, ln))) or re.fullmatch(r"min\((.*),%s\)|min\(%s,(.*)\)" % (re.escape(ln), re.escape(ln)), start):
                site.discharge = "G"
                site.detail = "range start clamped with min(.., %s)" % ln
                return "G"
            cf = cmp_facts(body, bb)
            if ("Le", start, ln) in cf or ("Lt", start, ln) in cf:
                site.discharge = "G"
                site.detail = "dominated by %s <= %s" % (start, ln)
                return "G"
            # for x in 0..=K / 0..K with K = len(S).checked_sub(n) (so K <= len(S)), slicing S's bytes from x:
            # x <= K <= len(S) = len(as_encoded_bytes(S))  [std: OsStr::len / str::len are the byte lengths of that encoding]
            mres = re.fullmatch(r"(.*?)\[RangeFrom::RangeFrom\((.*)\)\]", resolved_operand(body, site.operand) or "")
            if mres:
                base, start = mres.group(1), mres.group(2)
            mr = re.fullmatch(r"next\(into_iter\(new\(0,(.*)\)\)\)#Some\.0|next\(into_iter\(Range::Range\(0,(.*)\)\)\)#Some\.0", start)
            mb = re.fullmatch(r"(?:as_encoded_bytes|as_bytes)\((\w+)\)", base)
            if mr and mb:
                K = mr.group(1) or mr.group(2)
                mk = re.fullmatch(r"branch\(checked_sub\(len\((\w+)\),.*\)\)#Continue\.0|(?:unwrap|expect)\(checked_sub\(len\((\w+)\),.*\).*\)|saturating_sub\(len\((\w+)\),.*\)", K)
                # K = len(S) - n written as a plain subtraction (the subtraction is its own overflow site; where it does not overflow K <= len(S))
                mk2 = re.fullmatch(r"Sub\(len\((.*?)\),.*\)", K)
                if not mk and mk2 and (mk2.group(1) == mb.group(1) or mk2.group(1) == base):
                    site.discharge = "G"
                    site.detail = "start ranges over 0..=%s, which is at most len(%s)" % (K[:60], mb.group(1))
                    return "G"
                if mk and (mk.group(1) or mk.group(2) or mk.group(3)) == mb.group(1):
                    site.discharge = "G"
                    site.detail = "start ranges over 0..=%s, which is at most len(%s)" % (K[:60], mb.group(1))
                    return "G"
        m = re.fullmatch(r"(.*?)\[([^\[\]]*)\]", site.operand or "")
        if m and re.search(r"index<(std::vec::Vec|\[T\]|\[\w+\])>\[usize\]", site.what):
            base, idx = m.group(1), m.group(2)
            cf = cmp_facts(body, bb)
            ln = "len(%s)" % base
            if ("Lt", idx, ln) in cf:
                site.discharge = "G"
                site.detail = "dominated by %s < %s" % (idx, ln)
                return "G"
            m2 = re.fullmatch(r"Sub\((.*),(\d+)\)", idx)
            if m2 and (("Lt", m2.group(1), ln) in cf or ("Le", m2.group(1), ln) in cf):
                site.discharge = "G"
                site.detail = "dominated by %s < %s" % (m2.group(1), ln)
                return "G"
        return None
    return None


def inventory(fx, bodies, use_vset=True, engine=None):
    """Sites of all `bodies` with local discharges applied."""
    eng = engine or (vset.Engine(fx, max_depth=2) if use_vset else None)
    out = []
    for b in bodies:
        ss = sites_of(b)
        if not ss:
            continue
        vres = None
        if eng is not None and any(s.kind in ("panic", "unwrap") for s in ss):
            try:
                vres = eng.analyze(b)
                if vres.budget_exceeded:
                    vres = None
            except RecursionError:
                vres = None
        for s in ss:
            discharge_local(s, vres)
            out.append(s)
    return out


def load_audit(path):
    """Audit file: lines `count <TAB> key <TAB> reason` (# comments)."""
    import os
    aud = {}
    if not os.path.exists(path):
        return aud
    for ln in open(path):
        ln = ln.rstrip("\n")
        if not ln.strip() or ln.lstrip().startswith("#"):
            continue
        parts = ln.split("\t")
        if len(parts) < 3:
            continue
        # `keyA || keyB`: one audited site that has two spellings (e.g. `x?` vs `match x { Some(v) => v, None => return None }`
        # give different provenance heads); the alternatives share ONE count
        alts = [a.strip() for a in parts[1].split(" || ")]
        for a in alts:
            aud[a] = (int(parts[0]), parts[2], alts[0])
    return aud


def apply_audit(res, rule, sites, audit, report_prefix=""):
    """Record every site in `res`: discharged -> ok, audited residual -> audited, else violation.
    Multiset matching per audit key."""
    used = Counter()
    residual = []
    for s in sites:
        key = "%s|%s" % (s.body.q, s.audit_key().split("|", 1)[1])
        if s.discharge:
            res.ok(rule, "%s|%s" % (s.discharge, key), s.where(), "%s %s: %s %s" % (s.kind, s.what, s.discharge, s.detail if isinstance(s.detail, str) else ""))
            continue
        ak = s.audit_key()
        canon = audit[ak][2] if ak in audit and len(audit[ak]) > 2 else ak
        if ak in audit and used[canon] < audit[ak][0]:
            used[canon] += 1
            res.audited(rule, "A|%s" % key, s.where(), "%s %s on %s — audited: %s" % (s.kind, s.what, s.operand, audit[ak][1]))
        else:
            residual.append(s)
            res.violation(rule, "site|%s" % ak, s.where(),
                          "%s%s %s on `%s` is neither locally discharged nor audited (guards: %s)" % (
                              report_prefix, s.kind, s.what, s.operand, "; ".join(guard_strs(s.body, s.bb))[:300]))
    stale = [k for k, v in audit.items() if (len(v) < 3 or v[2] == k) and used[k] < v[0]]
    return residual, stale
