"""Accessor layer (rule id R<n>.A): the rules of every property read clap's state through small accessors — `is_*_set`
predicates, `get_*` getters — and treat them as atoms (`is_hide_set(arg)`, `get_long(arg)`).  A rule that proves "hidden
arguments are skipped because the loop tests is_hide_set" says nothing if is_hide_set reads another bit.  This module decides,
for the accessors a property's rules name, that the atoms mean what their names say:

 A1 reader/writer agreement — the builder setter `X(self, yes)` sets variant V on the `yes` edge and unsets the SAME V on the
    other edge, and the predicate `is_X_set` reads exactly that V (pairing by name; explicit exceptions below).  Derived from
    the tree on every run, nothing frozen: swapping both sides consistently is not reported, a one-sided change is.
 A2 injectivity — no two predicates read the same variant and no two setters write the same variant (a copy/paste slip).
 A3 storage algebra — Arg/Command::setting/unset_setting/is_set forward to the flag word's set/unset/is_set on `settings`
    (`global_setting` also on `g_settings`, Command::is_set reads both), the flag word implements them as `|= bit`,
    `&= !bit`, `& bit != 0`, and bit() is `1 << discriminant` (injective over the variants).
 A1b scope — a builder listed `global` in audit/setting_scope.tsv writes through global_setting (both flag words; _propagate_subcommand hands
    g_settings down), one listed `local` through setting; changing the scope changes what nested subcommands see.
 A4 field getters — a getter named in audit/accessors.tsv returns the field the table lists (the table was generated from the
    tree and confirmed by reading; alternatives are separated by ` || `).  Only getters that are plain field reads are listed.

Only the accessors whose names occur in the property's own rule file (rules/cNN.py) are checked under that property, so a report
names a property whose rules really rely on the broken atom.  A3 is checked wherever any `is_*_set` atom is used."""
import os, re
from rulekit import *

VERIF = os.path.dirname(os.path.dirname(os.path.abspath(__file__)))
# predicate name -> setter name where they do not pair as is_<setter>_set
PAIR_EXC = {
    "is_args_override_self": "args_override_self",
}
# predicates that are not a stored flag (computed from other state); reason each
NOT_A_FLAG = {
    "Arg::is_multiple_values_set": "derived from num_args",
    "Arg::is_takes_value_set": "derived from num_args / action",
    "Arg::is_positional": "derived from short/long",
    "Command::is_dont_collapse_args_in_usage_set": "deprecated constant",
    "Command::is_set": "the storage reader itself",
    "Arg::is_set": "the storage reader itself",
    "ArgGroup::is_required_set": "plain field (A4)",
    "ArgGroup::is_multiple": "plain field (A4)",
    "PossibleValue::is_hide_set": "plain field (A4)",
}


def _short(b):
    return "::".join(b.q.rsplit("::", 2)[1:])


def _names_used(pid):
    p = os.path.join(VERIF, "rules", pid.lower() + ".py")
    try:
        t = open(p).read()
    except OSError:
        return set()
    t = "\n".join(ln for ln in t.split("\n") if "accessor layer (lib/accessors.py)" not in ln)    # this layer's own blurb in EXPLANATION names no atom
    return set(re.findall(r"\b(?:is_\w+|get_\w+|has_\w+)\b", t))


def _variant(e):
    m = re.fullmatch(r"(?:\w+::)*(ArgSettings|AppSettings)::(\w+)\(\)", e or "")
    return (m.group(1), m.group(2)) if m else None


def _reader_variant(b):
    """(enum, variant) a predicate reads, or None: `is_set(self, E::V)` / `self.settings.is_set(E::V)`."""
    cs = b.calls_to(r"::is_set$")
    live = [i for i in b.reachable(0) if not b.blocks[i]["cleanup"]]
    if len(cs) != 1 or len(live) > 3:
        return None
    c = cs[0]
    recv = expr(b, c.args[0])
    if recv not in ("self", "self.settings"):
        return None
    if expr(b, 0) != expr(b, c.dest):
        return None
    return _variant(expr(b, c.args[1]))


def _setter_shape(b):
    """For a builder `X(self, yes: bool)`: ([(callee, variant, guards)], wellformed)"""
    cs = b.calls_to(r"::(setting|unset_setting|global_setting|unset_global_setting)$")
    out = []
    for c in cs:
        out.append((c.callee_q.rsplit("::", 1)[1], _variant(expr(b, c.args[1])), guard_strs(b, c.bb), c))
    return out


def run(ctx, pid):
    fx, res = ctx.fx, ctx.res
    rule = "R%d.A" % int(pid[1:])
    used = _names_used(pid)
    if not used:
        return
    readers, setters = {}, {}
    for b in fx.bodies(r"^clap_builder::builder::(arg::Arg|command::Command)::is_\w+$"):
        sn = _short(b)
        if sn in NOT_A_FLAG:
            continue
        readers[sn] = b
    for b in fx.bodies(r"^clap_builder::builder::(arg::Arg|command::Command)::\w+$"):
        if b.argc != 2 or b.local_ty(2) != "bool" or b.q.rsplit("::", 1)[1].startswith("_") or b.local_ty(0) != b.local_ty(1):
            continue    # builder shape only: `pub fn x(self, yes: bool) -> Self` (internal passes such as _check_help_and_version set flags too)
        if not b.calls_to(r"::(setting|unset_setting|global_setting|unset_global_setting)$"):
            continue
        setters[_short(b)] = b
    n_pairs = 0
    scope = {}
    for ln in open(os.path.join(VERIF, "audit", "setting_scope.tsv")):
        if ln.strip() and not ln.startswith("#"):
            q, sc_ = ln.rstrip("\n").split("\t")[:2]
            scope["::".join(q.rsplit("::", 2)[1:])] = sc_
    seen_r = {}
    all_r = {}
    for sn, b in sorted(readers.items()):
        v = _reader_variant(b)
        all_r[sn] = v
    # ---- A2 injectivity over ALL predicates of a type (reported only when one of the colliding names is used by this property)
    for sn, v in all_r.items():
        if v is None:
            continue
        ty = sn.split("::")[0]
        other = seen_r.setdefault((ty, v), sn)
        if other != sn and (sn.split("::")[1] in used or other.split("::")[1] in used):
            res.violation(rule, "accessor|two-predicates-one-flag|%s|%s" % (other, sn), readers[sn].where(),
                          "%s and %s both read %s::%s: one of the two atoms does not mean what its name says" % (other, sn, v[0], v[1]))
    for sn, b in sorted(readers.items()):
        ty, nm = sn.split("::")
        if nm not in used:
            continue
        v = all_r[sn]
        if v is None:
            res.violation(rule, "accessor|predicate-shape|" + sn, b.where(),
                          "%s is no longer `is_set(<one setting>)` (its value is %s): the rules of %s use it as the atom for one stored setting" % (sn, expr(b, 0)[:120], pid))
            continue
        sname = PAIR_EXC.get(nm) or re.sub(r"^is_(\w+)_set$", r"\1", nm)
        sb = setters.get(ty + "::" + sname)
        if sb is None:
            # a read-only setting without a bool builder (none today among the used ones): nothing to pair
            res.ok(rule, "accessor|reader-only|" + sn, b.where(), "%s reads %s::%s (no bool builder `%s` to pair with)" % (sn, v[0], v[1], sname))
            continue
        n_pairs += 1
        shape = _setter_shape(sb)
        sets = [(cal, var, g) for cal, var, g, c in shape if cal in ("setting", "global_setting")]
        unsets = [(cal, var, g) for cal, var, g, c in shape if cal in ("unset_setting", "unset_global_setting")]
        yes = sb.local_name(2) or "yes"
        ok_shape = (len(sets) == 1 and len(unsets) == 1 and sets[0][1] is not None and sets[0][1] == unsets[0][1]
                    and ("T:" + yes) in sets[0][2] and ("F:" + yes) in unsets[0][2]
                    and sets[0][0].replace("setting", "") == unsets[0][0].replace("unset_", "").replace("setting", ""))
        res.check(ok_shape, rule, "accessor|setter-shape|" + ty + "::" + sname, sb.where(),
                  "%s(yes) sets %s on the yes edge and unsets the same flag otherwise" % (sname, sets[0][1][1] if sets and sets[0][1] else "?"),
                  "%s::%s(yes) does not set one flag on the `yes` edge and unset that same flag on the other (%s / %s)" % (ty, sname, [(c, v_, g) for c, v_, g in sets], [(c, v_, g) for c, v_, g in unsets]))
        if ok_shape and (ty + "::" + sname) in scope:
            now = "global" if sets[0][0] == "global_setting" else "local"
            res.check(now == scope[ty + "::" + sname], rule, "accessor|setter-scope|" + ty + "::" + sname, sb.where(), "%s is a %s setting" % (sname, now),
                      "%s::%s writes its flag through %s: it is a %s setting now but audit/setting_scope.tsv (and the builder's documentation) say %s — %s" % (
                          ty, sname, sets[0][0], now, scope[ty + "::" + sname],
                          "nested subcommands no longer inherit it, their parsers read %s as unset" % nm if now == "local" else "it now leaks into every subcommand"))
        if ok_shape:
            res.check(sets[0][1] == v, rule, "accessor|reader-writer-agree|" + sn, b.where(),
                      "%s reads %s, the flag %s() writes" % (nm, v[1], sname),
                      "%s reads %s::%s but the builder %s::%s writes %s::%s: the setting a user makes is not the one the parser/validator/output code tests" % (sn, v[0], v[1], ty, sname, sets[0][1][0], sets[0][1][1]))
    # ---- A2 for setters
    seen_s = {}
    for sn, sb in sorted(setters.items()):
        for cal, var, g, c in _setter_shape(sb):
            if cal in ("setting", "global_setting") and var is not None and ("T:" + (sb.local_name(2) or "yes")) in g:
                ty = sn.split("::")[0]
                other = seen_s.setdefault((ty, var), sn)
                rn = lambda s: "is_%s_set" % s.split("::")[1]
                if other != sn and (rn(sn) in used or rn(other) in used):
                    res.violation(rule, "accessor|two-setters-one-flag|%s|%s" % (other, sn), sb.where(),
                                  "%s and %s both write %s::%s" % (other, sn, var[0], var[1]))
    # ---- A3 storage algebra
    if any(re.fullmatch(r"is_\w+_set|is_set|is_args_override_self", u) for u in used):
        _storage(fx, res, rule)
    # ---- A4 field getters
    tbl = os.path.join(VERIF, "audit", "accessors.tsv")
    n_get = 0
    for ln in open(tbl):
        ln = ln.rstrip("\n")
        if not ln or ln.startswith("#"):
            continue
        q, want = ln.split("\t")[:2]
        nm = q.rsplit("::", 1)[1]
        if nm not in used:
            continue
        bs = fx.bodies("^" + re.escape(q) + "$")
        if not bs:
            continue    # cfg-dependent getter absent in this configuration
        b = bs[0]
        n_get += 1
        got = strip_transparent(expr(b, 0))
        alts = [strip_transparent(a.strip()) for a in want.split(" || ")]
        if got not in alts:
            # tolerate a re-expressed getter (combinators, helper closures): it still reads exactly the listed field of self and nothing else
            import json
            own = b.q.rsplit("::", 1)[0]
            flds = set(m for t in tree(b) for bl in t.blocks if not bl["cleanup"] for m in re.findall(r"\.(\w+)@" + re.escape(own) + r"\b", json.dumps(bl)))
            wantf = set(re.findall(r"self\.(\w+)", alts[0]))
            neg = alts[0].startswith("Not(") != got.startswith("Not(")
            if flds == wantf and not neg:
                res.ok(rule, "accessor|getter|" + _short(b), b.where(), "%s reads only self.%s (re-expressed as %s)" % (_short(b), ",".join(sorted(flds)), got[:80]))
                continue
        res.check(got in alts, rule, "accessor|getter|" + _short(b), b.where(), "%s returns %s" % (_short(b), got),
                  "%s returns %s, not %s: the rules of %s use this getter as the atom for that field" % (_short(b), got[:120], alts[0], pid))
    res.note("%s accessor layer: %d predicate/builder pairs, %d field getters named by rules/%s.py checked" % (rule, n_pairs, n_get, pid.lower()))


def g_settings_handed_down(fx):
    """{field: (ok, writes seen)} for field in settings, g_settings: _propagate_subcommand ORs self.g_settings into the child's field —
    as `child.f = child.f | self.g_settings` (either operand order), `child.f |= ..`, or `child.f.insert(self.g_settings)`."""
    ps = fx.body("clap_builder::builder::command::Command::_propagate_subcommand")
    got = {}
    for fld in ("settings", "g_settings"):
        for i, s_ in writes_field(ps, fld):
            pl_ = s_["place"]
            if not any(isinstance(el, str) and el.startswith("." + fld + "@") for el in pl_[-1:]):
                continue
            if ps.local_name(pl_local(pl_)) == "self":
                continue
            e = expr(ps, s_["rv"]["op"]) if s_["rv"]["k"] == "use" else ""
            got.setdefault(fld, []).append(strip_transparent(e))
    out = {}
    for fld in ("settings", "g_settings"):
        es = got.get(fld, [])
        okp = any(re.fullmatch(r"(bitor|BitOr)\(\w+\.%s,self\.g_settings\)|(bitor|BitOr)\(self\.g_settings,\w+\.%s\)" % (fld, fld), e) for e in es) or bool(
            [c for c in ps.calls_to(r"AppFlags::insert$|BitOrAssign>?::bitor_assign$") if re.search(r"\.%s$" % fld, expr(ps, c.args[0])) and not expr(ps, c.args[0]).startswith("self.") and expr(ps, c.args[1]) == "self.g_settings"])
        out[fld] = (okp, es)
    return out


def _bool_eval(b, atom_of_call, max_steps=200):
    """Truth table of a small bool function over call atoms: atom_of_call(call) -> atom name or None.  {assignment: result|None}"""
    import itertools
    names = sorted(set(a for a in (atom_of_call(c) for c in b.calls()) if a))
    out = {}
    for vals in itertools.product((False, True), repeat=len(names)):
        sig = dict(zip(names, vals)); env = {}; pc = 0; result = None

        def opv(op):
            if "int" in op:
                return bool(op["int"])
            l = op.get("cp", op.get("mv"))
            return env.get(l) if isinstance(l, int) else None
        for _ in range(max_steps):
            bl = b.blocks[pc]
            for s_ in bl["stmts"]:
                if s_["k"] != "assign" or not isinstance(s_["place"], int):
                    continue
                rv = s_["rv"]
                if rv["k"] == "use":
                    env[s_["place"]] = opv(rv["op"])
                elif rv["k"] == "unop" and rv.get("op") == "Not":
                    v = opv(rv["a"]); env[s_["place"]] = (not v) if v is not None else None
                elif rv["k"] == "binop" and rv.get("op") in ("BitOr", "BitAnd", "Eq", "Ne", "BitXor"):
                    x, y = opv(rv["a"]), opv(rv["b"])
                    env[s_["place"]] = None if x is None or y is None else {"BitOr": x or y, "BitAnd": x and y, "Eq": x == y, "Ne": x != y, "BitXor": x != y}[rv["op"]]
                else:
                    env[s_["place"]] = None
            t = bl["term"]; k = t["k"]
            if k == "goto" or k == "drop":
                pc = t["target"]
            elif k == "call":
                c = Call(b, pc, t)
                a = atom_of_call(c)
                d = t.get("dest")
                if isinstance(d, int):
                    env[d] = sig[a] if a else None
                if t.get("target") is None:
                    break
                pc = t["target"]
            elif k == "switch":
                v = opv(t["op"])
                if v is None:
                    break
                nxt = t["otherwise"]
                for (val, tgt) in t["targets"]:
                    if int(v) == val:
                        nxt = tgt
                pc = nxt
            elif k == "return":
                result = env.get(0)
                break
            else:
                break
        out[vals] = result
    return names, out


# the bit of a setting: `setting.bit()` or the same thing written out, `1 << (setting as u8)`
BIT = r"(?:bit\(\w+\)|Shl\(1,[^,]*discr\(\w+\)[^,]*\))"


def _storage(fx, res, rule):
    spec = [
        ("clap_builder::builder::arg::Arg::setting", [("ArgFlags::set", "self.settings")]),
        ("clap_builder::builder::arg::Arg::unset_setting", [("ArgFlags::unset", "self.settings")]),
        ("clap_builder::builder::command::Command::setting", [("AppFlags::set", "self.settings")]),
        ("clap_builder::builder::command::Command::unset_setting", [("AppFlags::unset", "self.settings")]),
        ("clap_builder::builder::command::Command::global_setting", [("AppFlags::set", "self.settings"), ("AppFlags::set", "self.g_settings")]),
        ("clap_builder::builder::command::Command::unset_global_setting", [("AppFlags::unset", "self.settings"), ("AppFlags::unset", "self.g_settings")]),
    ]
    for q, want in spec:
        b = fx.body(q)
        p2 = b.local_name(2) or "setting"
        got = sorted((c.callee_q.split("::", 3)[-1].split("::", 1)[-1] if False else "::".join(c.callee_q.rsplit("::", 2)[1:]), expr(b, c.args[0])) for c in b.calls_to(r"(ArgFlags|AppFlags)::\w+$") if expr(b, c.args[1]) == p2)
        allc = b.calls_to(r"(ArgFlags|AppFlags)::\w+$")
        res.check(got == sorted(want) and len(allc) == len(want), rule, "storage|" + _short(b), b.where(), "%s forwards to %s" % (_short(b), want),
                  "%s no longer is exactly %s on its parameter (it does %s): a setting is stored or cleared in the wrong word" % (_short(b), want, [("::".join(c.callee_q.rsplit("::", 2)[1:]), expr(b, c.args[0]), expr(b, c.args[1])) for c in allc]))
    # propagation of the global word: _propagate_subcommand gives every child `settings |= parent.g_settings` AND `g_settings |= parent.g_settings`
    # (the second is what the child hands to ITS children: without it a global setting stops at depth 1)
    ps = fx.body("clap_builder::builder::command::Command::_propagate_subcommand")
    for fld, (okp, es) in g_settings_handed_down(fx).items():
        res.check(okp, rule, "storage|propagate|child." + fld, ps.where(), "_propagate_subcommand: child.%s |= self.g_settings" % fld,
                  "_propagate_subcommand no longer merges the parent's g_settings into the child's `%s` (writes seen: %s): %s" % (fld, es[:3],
                      "a global setting stops applying from the second subcommand level on" if fld == "g_settings" else "global settings no longer reach subcommands"))
    b = fx.body("clap_builder::builder::arg::Arg::is_set")
    res.check(strip_transparent(expr(b, 0)) in ("is_set(self.settings,s)", "is_set(self.settings,%s)" % (b.local_name(2) or "s")), rule, "storage|Arg::is_set", b.where(), "Arg::is_set reads self.settings",
              "Arg::is_set is %s, not settings.is_set(s)" % expr(b, 0)[:100])
    b = fx.body("clap_builder::builder::command::Command::is_set")
    cs = b.calls_to(r"AppFlags::is_set$")
    p2 = b.local_name(2) or "s"
    recvs = sorted(expr(b, c.args[0]) for c in cs if expr(b, c.args[1]) == p2)
    # value: true if either word has it — the second read sits on the false edge of the first, or the two are or-ed
    # value: true iff either word has it — decided as a truth table over the two reads (any lowering: short-circuit, eager `|`, lets)
    def atom(c):
        if re.search(r"AppFlags::is_set$", c.callee_q or "") and expr(b, c.args[1]) == p2:
            r_ = expr(b, c.args[0])
            return {"self.settings": "S", "self.g_settings": "G"}.get(r_)
        return None
    names, tb = _bool_eval(b, atom)
    ok = recvs == ["self.g_settings", "self.settings"] and names == ["G", "S"] and all(val == (k[0] or k[1]) for k, val in tb.items())
    res.check(ok, rule, "storage|Command::is_set", b.where(), "Command::is_set = settings.is_set(s) || g_settings.is_set(s)",
              "Command::is_set is not the disjunction of both flag words for its parameter (reads %s, table %s)" % (recvs, tb))
    for flags, enum in (("arg_settings::ArgFlags", "arg_settings::ArgSettings"), ("app_settings::AppFlags", "app_settings::AppSettings")):
        base = "clap_builder::builder::" + flags
        bitq = "clap_builder::builder::" + enum + "::bit"
        st = fx.body(base + "::set"); un = fx.body(base + "::unset"); isb = fx.body(base + "::is_set"); bit = fx.body(bitq)
        def word_writes(b):
            out = []
            for i in b.reachable(0):
                bl = b.blocks[i]
                if bl["cleanup"]:
                    continue
                for s_ in bl["stmts"]:
                    if s_["k"] == "assign" and isinstance(s_["place"], list) and len(s_["place"]) >= 2 and s_["rv"]["k"] == "binop":
                        out.append((s_["rv"]["op"], expr(b, s_["rv"]["a"]), expr(b, s_["rv"]["b"])))
            return out
        fl = flags.split("::")[1]
        w = word_writes(st)
        res.check(len(w) == 1 and w[0][0] == "BitOr" and re.fullmatch(BIT, w[0][2]) is not None, rule, "storage|%s::set" % fl, st.where(), "set: word |= bit(s)", "%s::set is %s, not `word |= bit(setting)`" % (fl, w))
        w = word_writes(un)
        res.check(len(w) == 1 and w[0][0] == "BitAnd" and re.fullmatch(r"Not\(" + BIT + r"\)", w[0][2]) is not None, rule, "storage|%s::unset" % fl, un.where(), "unset: word &= !bit(s)", "%s::unset is %s, not `word &= !bit(setting)`" % (fl, w))
        e = expr(isb, 0)
        e_n = re.sub(BIT, "BIT", e)
        res.check(re.fullmatch(r"Ne\(BitAnd\(self\.0,BIT\),0\)|Eq\(BitAnd\(self\.0,BIT\),BIT\)|Ne\(0,BitAnd\(self\.0,BIT\)\)|Ne\(BitAnd\(BIT,self\.0\),0\)|Eq\(BitAnd\(BIT,self\.0\),BIT\)", e_n) is not None, rule, "storage|%s::is_set" % fl, isb.where(), "is_set: word & bit(s) != 0", "%s::is_set is %s, not `word & bit(setting) != 0`" % (fl, e[:100]))
        e = expr(bit, 0)
        res.check(re.fullmatch(r"Shl\(1,(Cast\()?discr\(self\)\)?( as \w+)?\)?", e) is not None or re.fullmatch(r"Shl\(1,[^,]*discr\(self\)[^,]*\)", e) is not None, rule, "storage|%s::bit" % enum.split("::")[1], bit.where(), "bit = 1 << discriminant",
                  "%s::bit is %s, not `1 << (self as u8)`: two settings can share a bit" % (enum.split("::")[1], e[:100]))
