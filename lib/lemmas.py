"""Checked lemmas: code relations that audit-table reasons (audit/*.tsv) cite.  An audit entry says "this unwrap/index is safe
because <invariant>"; where the invariant is itself visible in the code it is checked here, so that an edit that breaks
the invariant (and thereby the audited site) is reported instead of being hidden behind the audit line."""
import re
from rulekit import *

LEN_OPS = r"Vec::(push|remove|insert|clear|truncate|pop|drain|retain|swap_remove|append|extend_from_slice|dedup\w*|split_off)$|Extend(<[^>]*>)?>?::extend$"


def flat_map_lockstep(fx, res, rule):
    """FlatMap keeps `keys` and `values` the same length: every function that changes the length of one changes the
    other with the same operation (audit: flat_map index/remove/unwrap entries)."""
    n = 0
    for b in fx.bodies(r"^(<)?clap_builder::util::flat_map::"):
        ops = {"keys": [], "values": []}
        for c in b.calls_to(LEN_OPS):
            e = expr(b, c.args[0]) if c.args else ""
            m = re.search(r"\.(keys|values)\)?$", e)
            if m and re.search(r"(self|entry|arg1|v)\b", e):
                ops[m.group(1)].append(c.callee_q.rsplit("::", 1)[1])
        if not ops["keys"] and not ops["values"]:
            continue
        n += 1
        res.check(sorted(ops["keys"]) == sorted(ops["values"]), rule, "lemma|flat_map-lockstep|" + b.q.split("::flat_map::", 1)[1], b.where(),
                  "keys and values change length together (%s)" % sorted(ops["keys"]),
                  "%s changes FlatMap::keys with %s but FlatMap::values with %s: the two vectors can get different lengths and the audited index/unwrap sites of flat_map.rs are no longer safe" % (b.q, sorted(ops["keys"]), sorted(ops["values"])))
    res.floor(rule, "length-changing FlatMap functions", n, 2)


def use_long_pv_implies_visible_value(fx, res, rule):
    """help(): `possible_vals.iter().filter(!hide).map(width).max().expect(..)` is reached only under use_long_pv(arg), and
    use_long_pv(arg) => some possible value has should_show_help => that value is not hidden (audit: help_template expect max)."""
    hp = fx.body("clap_builder::output::help_template::HelpTemplate::help")
    ex = [c for c in hp.calls_to(r"Option::expect$") if re.match(r"^max\(map\(filter\(iter\(get_possible_values\(", expr(hp, c.args[0]))]
    res.floor(rule, "expect(max over visible possible values) in help()", len(ex), 1)
    for c in ex:
        res.check(has_bool(hp, c.bb, "T", r"^use_long_pv\(self,"), rule, "lemma|max-under-use_long_pv", c.where(), "reached only when use_long_pv(arg)",
                  "help() takes the max over the visible possible values outside the use_long_pv(arg) edge: with no visible value the expect panics")
    ul = fx.body("clap_builder::output::help_template::HelpTemplate::use_long_pv")
    anyc = [c for c in ul.calls_to(r"Iterator>?::any$") if re.search(r"get_possible_values\(arg\)", expr(ul, c.args[0]))]
    truthy = [d for d in ul.def_sites(0) if not (isinstance(d[3], dict) and d[3]["k"] == "use" and op_int(d[3]["op"]) == 0)]
    ok1 = bool(anyc) and all((not isinstance(d[3], dict)) and d[3] in anyc for d in truthy) and all(any("should_show_help" in q for q in c.fnitems) or any(cb.calls_to(r"PossibleValue::should_show_help$") for cb in closure_bodies(fx, c)) for c in anyc)
    ok1 = ok1 or true_only_if_exists(fx, ul, r"get_possible_values\(arg\)", r"PossibleValue::should_show_help$")
    res.check(ok1, rule, "lemma|use_long_pv=>any-should_show_help", ul.where(), "use_long_pv is true only if any possible value should_show_help",
              "use_long_pv can be true without a possible value that should_show_help")
    sh = fx.body("clap_builder::builder::possible_value::PossibleValue::should_show_help")
    tbl = bool_table(sh, [("H", r"^$")])   # no call atoms: `hide` is a field read
    # should_show_help = !self.hide && self.help.is_some(): every non-false result sits on the !hide edge
    truthy = [d for d in sh.def_sites(0) if not (isinstance(d[3], dict) and d[3]["k"] == "use" and op_int(d[3]["op"]) == 0)]
    ok2 = bool(truthy) and all(any(re.match(r"^F:(self\.hide|is_hide_set\(self\))$", g) for g in guard_strs(sh, d[0])) for d in truthy)
    res.check(ok2, rule, "lemma|should_show_help=>not-hidden", sh.where(), "should_show_help is true only for a value that is not hidden",
              "PossibleValue::should_show_help can be true for a hidden value: help() then finds no visible value and its expect panics")


def positionals_have_index(fx, res, rule):
    """usage.rs unwraps get_index() while iterating get_positionals(): get_positionals = filter(is_positional) and Arg::_build /
    Command::_build_self give every positional an index (audit: usage unwrap get_index)."""
    gp = fx.body("clap_builder::builder::command::Command::get_positionals")
    flt = gp.calls_to(r"Iterator::filter$")
    okf = len(flt) == 1 and expr(gp, flt[0].args[0]) == "get_arguments(self)" and any(cb.calls_to(r"Arg::is_positional$") and not expr(cb, 0).startswith("Not(") for cb in closure_bodies(fx, flt[0]))
    res.check(okf, rule, "lemma|get_positionals=filter(is_positional)", gp.where(), "get_positionals yields exactly the positional arguments", "get_positionals no longer is get_arguments().filter(is_positional)")
    bs = fx.body("clap_builder::builder::command::Command::_build_self")
    wr = [c for t in tree(bs) for c in t.calls() if False]
    idx_writes = [(t, i) for t in tree(bs) for i, s_ in writes_field(t, "index")]
    res.check(bool(idx_writes), rule, "lemma|build-assigns-positional-index", bs.where(), "_build_self assigns an index to positionals that have none", "_build_self no longer assigns indices to positionals")


def build_subcommand_name_exists(fx, res, rule):
    """parse_help_subcommand unwraps `sc._build_subcommand(name)` (audit: "sc_name was just obtained from find_subcommand(cmd) on
    the same sc"): _build_subcommand looks the subcommand up by its NAME, so the name handed to it must be the get_name() of what
    find_subcommand returned on the same command — an alias text, an inferred prefix or any other spelling makes the lookup fail
    and the unwrap panic."""
    b = fx.body("clap_builder::parser::parser::Parser::parse_help_subcommand")
    n = 0
    for c in b.calls_to(r"Option::(unwrap|expect)$"):
        e = expr(b, c.args[0])
        m = re.fullmatch(r"_build_subcommand\((\w+),(.*)\)", e)
        if not m:
            continue
        n += 1
        recv, name = m.group(1), m.group(2)
        m2 = re.fullmatch(r"map\(find_subcommand\((\w+),.*\),closure\(\)\)#Some\.0", name)
        cl_ok = False
        if m2:
            mp = [x for x in b.calls_to(r"Option(<[^>]*>)?::map$") if expr(b, x.dest) + "#Some.0" == name or expr(b, x.args[0]).startswith("find_subcommand(")]
            cl_ok = bool(mp) and all(re.fullmatch(r"(to_owned|to_string|clone|into)\(get_name\(\w+\)\)", expr(cb, 0)) is not None for x in mp for cb in own_closures(fx, x))
        res.check(m2 is not None and m2.group(1) == recv and cl_ok, rule, "lemma|help-subcommand-name-is-canonical", c.where(), "_build_subcommand(find_subcommand(x).get_name()).unwrap() on the same command",
                  "parse_help_subcommand unwraps _build_subcommand(%s): the name does not come from find_subcommand(..).get_name() on the same command (an alias or an inferred spelling is not a subcommand NAME, the lookup returns None and `help <that>` panics)" % name[:100])
    res.floor(rule, "unwrap of _build_subcommand in parse_help_subcommand", n, 1)
