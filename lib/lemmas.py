"""Checked lemmas: code relations that audit-table reasons (audit/*.tsv) cite.  An audit entry says "this unwrap/index is safe
because <invariant>"; where the invariant is itself visible in the code it is checked here, so that an edit that breaks
the invariant (and thereby the audited site) is reported instead of being hidden behind the audit line."""
import re
from rulekit import *

LEN_OPS = r"Vec::(push|remove|insert|clear|truncate|pop|drain|retain|swap_remove|append|extend_from_slice|dedup\w*|split_off)$|Extend(<[^>]*>)?>?::extend$"


def flat_map_lockstep(fx, res, rule):
    """FlatMap keeps `keys` and `values` the same length: every function that changes the length of one changes the
    other with the same operation (audit: flat_map index/remove/unwrap entries)."""
    n = 0
    for b in fx.bodies(r"^(<)?clap_builder::util::flat_map::"):
        ops = {"keys": [], "values": []}
        for c in b.calls_to(LEN_OPS):
            e = expr(b, c.args[0]) if c.args else ""
            m = re.search(r"\.(keys|values)\)?$", e)
            if m and re.search(r"(self|entry|arg1|v)\b", e):
                ops[m.group(1)].append(c.callee_q.rsplit("::", 1)[1])
        if not ops["keys"] and not ops["values"]:
            continue
        n += 1
        res.check(sorted(ops["keys"]) == sorted(ops["values"]), rule, "lemma|flat_map-lockstep|" + b.q.split("::flat_map::", 1)[1], b.where(),
                  "keys and values change length together (%s)" % sorted(ops["keys"]),
                  "%s changes FlatMap::keys with %s but FlatMap::values with %s: the two vectors can get different lengths and the audited index/unwrap sites of flat_map.rs are no longer safe" % (b.q, sorted(ops["keys"]), sorted(ops["values"])))
    res.floor(rule, "length-changing FlatMap functions", n, 2)


def use_long_pv_implies_visible_value(fx, res, rule):
    """help(): `possible_vals.iter().filter(!hide).map(width).max().expect(..)` is reached only under use_long_pv(arg), and
    use_long_pv(arg) => some possible value has should_show_help => that value is not hidden (audit: help_template expect max)."""
    hp = fx.body("clap_builder::output::help_template::HelpTemplate::help")
    ex = [c for c in hp.calls_to(r"Option::expect$") if re.match(r"^max\(map\(filter\(iter\(get_possible_values\(", expr(hp, c.args[0]))]
    res.floor(rule, "expect(max over visible possible values) in help()", len(ex), 1)
    for c in ex:
        res.check(has_bool(hp, c.bb, "T", r"^use_long_pv\(self,"), rule, "lemma|max-under-use_long_pv", c.where(), "reached only when use_long_pv(arg)",
                  "help() takes the max over the visible possible values outside the use_long_pv(arg) edge: with no visible value the expect panics")
    ul = fx.body("clap_builder::output::help_template::HelpTemplate::use_long_pv")
    anyc = [c for c in ul.calls_to(r"Iterator>?::any$") if re.search(r"get_possible_values\(arg\)", expr(ul, c.args[0]))]
    truthy = [d for d in ul.def_sites(0) if not (isinstance(d[3], dict) and d[3]["k"] == "use" and op_int(d[3]["op"]) == 0)]
    ok1 = bool(anyc) and all((not isinstance(d[3], dict)) and d[3] in anyc for d in truthy) and all(any("should_show_help" in q for q in c.fnitems) or any(cb.calls_to(r"PossibleValue::should_show_help$") for cb in closure_bodies(fx, c)) for c in anyc)
    ok1 = ok1 or true_only_if_exists(fx, ul, r"get_possible_values\(arg\)", r"PossibleValue::should_show_help$")
    res.check(ok1, rule, "lemma|use_long_pv=>any-should_show_help", ul.where(), "use_long_pv is true only if any possible value should_show_help",
              "use_long_pv can be true without a possible value that should_show_help")
    sh = fx.body("clap_builder::builder::possible_value::PossibleValue::should_show_help")
    tbl = bool_table(sh, [("H", r"^$")])   # no call atoms: `hide` is a field read
    # should_show_help = !self.hide && self.help.is_some(): every non-false result sits on the !hide edge
    truthy = [d for d in sh.def_sites(0) if not (isinstance(d[3], dict) and d[3]["k"] == "use" and op_int(d[3]["op"]) == 0)]
    ok2 = bool(truthy) and all(any(re.match(r"^F:(self\.hide|is_hide_set\(self\))$", g) for g in guard_strs(sh, d[0])) for d in truthy)
    res.check(ok2, rule, "lemma|should_show_help=>not-hidden", sh.where(), "should_show_help is true only for a value that is not hidden",
              "PossibleValue::should_show_help can be true for a hidden value: help() then finds no visible value and its expect panics")


def positionals_have_index(fx, res, rule):
    """usage.rs unwraps get_index() while iterating get_positionals(): get_positionals = filter(is_positional) and Arg::_build /
    Command::_build_self give every positional an index (audit: usage unwrap get_index)."""
    gp = fx.body("clap_builder::builder::command::Command::get_positionals")
    flt = gp.calls_to(r"Iterator::filter$")
    okf = len(flt) == 1 and expr(gp, flt[0].args[0]) == "get_arguments(self)" and any(cb.calls_to(r"Arg::is_positional$") and not expr(cb, 0).startswith("Not(") for cb in closure_bodies(fx, flt[0]))
    res.check(okf, rule, "lemma|get_positionals=filter(is_positional)", gp.where(), "get_positionals yields exactly the positional arguments", "get_positionals no longer is get_arguments().filter(is_positional)")
    bs = fx.body("clap_builder::builder::command::Command::_build_self")
    wr = [c for t in tree(bs) for c in t.calls() if False]
    idx_writes = [(t, i) for t in tree(bs) for i, s_ in writes_field(t, "index")]
    res.check(bool(idx_writes), rule, "lemma|build-assigns-positional-index", bs.where(), "_build_self assigns an index to positionals that have none", "_build_self no longer assigns indices to positionals")


def build_subcommand_name_exists(fx, res, rule):
    """parse_help_subcommand unwraps `sc._build_subcommand(name)` (audit: "sc_name was just obtained from find_subcommand(cmd) on
    the same sc"): _build_subcommand looks the subcommand up by its NAME, so the name handed to it must be the get_name() of what
    find_subcommand returned on the same command — an alias text, an inferred prefix or any other spelling makes the lookup fail
    and the unwrap panic."""
    b = fx.body("clap_builder::parser::parser::Parser::parse_help_subcommand")
    n = 0
    for c in b.calls_to(r"Option::(unwrap|expect)$"):
        e = expr(b, c.args[0])
        m = re.fullmatch(r"_build_subcommand\((\w+),(.*)\)", e)
        if not m:
            continue
        n += 1
        recv, name = m.group(1), m.group(2)
        m2 = re.fullmatch(r"map\(find_subcommand\((\w+),.*\),closure\(\)\)#Some\.0", name)
        cl_ok = False
        if m2:
            mp = [x for x in b.calls_to(r"Option(<[^>]*>)?::map$") if expr(b, x.dest) + "#Some.0" == name or expr(b, x.args[0]).startswith("find_subcommand(")]
            cl_ok = bool(mp) and all(re.fullmatch(r"(to_owned|to_string|clone|into)\(get_name\(\w+\)\)", expr(cb, 0)) is not None for x in mp for cb in own_closures(fx, x))
        res.check(m2 is not None and m2.group(1) == recv and cl_ok, rule, "lemma|help-subcommand-name-is-canonical", c.where(), "_build_subcommand(find_subcommand(x).get_name()).unwrap() on the same command",
                  "parse_help_subcommand unwraps _build_subcommand(%s): the name does not come from find_subcommand(..).get_name() on the same command (an alias or an inferred spelling is not a subcommand NAME, the lookup returns None and `help <that>` panics)" % name[:100])
    res.floor(rule, "unwrap of _build_subcommand in parse_help_subcommand", n, 1)


def flag_subcommand_lookup_canonical(fx, res, rule):
    """Parser::parse resolves what the flag-subcommand lookups return with `find_subcommand(name).expect(INTERNAL_ERROR_MSG)`
    (audit: "the name came from a lookup on the same command").  find_subcommand knows subcommand NAMES and their (positional)
    aliases — not long-flag or short-flag aliases.  So possible_long_flag_subcommand / find_long_subcmd / find_short_subcmd must answer with
    the subcommand's get_name(), never with the matched flag or flag-alias text: every closure in their trees that returns an
    `Option<&str>` builds it from `get_name(..)` (or from nested closures that do), not from an element-returning iterator call
    (find / next / last / nth over the aliases)."""
    ELEM = r"Iterator>?::(find|next|last|nth|max|min|max_by|min_by|max_by_key|min_by_key|reduce)$"
    n = 0
    for q in ("clap_builder::parser::parser::Parser::possible_long_flag_subcommand", "clap_builder::builder::command::Command::find_long_subcmd",
              "clap_builder::builder::command::Command::find_short_subcmd"):
        b = fx.body(q)
        for t in tree(b):
            if t is b:
                # the loop form (`for sc in .. { if hit { return Some(sc.get_name()) } }`): a Some(..) built here from alias / flag text is the same slip
                for (bb, idx, lhs, rhs) in t.def_sites(0):
                    if isinstance(rhs, dict) and rhs["k"] == "agg" and rhs.get("ak") == "adt" and str(rhs.get("variant")) in ("Some", "1") and rhs.get("ops"):
                        e = expr(t, rhs["ops"][0])
                        if re.search(r"aliases|get_long_flag\(|get_short_flag\(", e) and not re.match(r"^(as_str\()?get_name\(", e):
                            n += 1
                            res.violation(rule, "lemma|flag-subcommand-lookup-answers-name|" + q.rsplit("::", 1)[1], t.where(),
                                          "%s answers Some(%s) — flag / alias text, not the subcommand's get_name(): Parser::parse resolves the answer with find_subcommand(..).expect(..)" % (q.rsplit("::", 1)[1], e[:100]))
                        elif re.match(r"^(as_str\()?get_name\(", e):
                            n += 1
                            res.ok(rule, "lemma|flag-subcommand-lookup-answers-name|" + q.rsplit("::", 1)[1], t.where(), "answers Some(%s)" % e[:60])
                continue
            rty = t.local_ty(0).replace("'_ ", "")
            if rty == "&str":
                # the `.map(|sc| sc.get_name())` form: the closure's value is the answer itself
                n += 1
                e = strip_transparent(expr(t, 0))
                res.check(re.match(r"^(as_str\()?get_name\(", e) is not None, rule, "lemma|flag-subcommand-lookup-answers-name|" + q.rsplit("::", 1)[1], t.where(), "answers %s" % e[:60],
                          "%s answers %s, not the subcommand's get_name(): Parser::parse resolves the answer with find_subcommand(..).expect(..), which does not know flag or flag-alias spellings" % (q.rsplit("::", 1)[1], e[:100]))
                continue
            if not re.match(r"^(std::option::|core::option::)?Option<&str>$", rty):
                continue
            for (bb, idx, lhs, rhs) in t.def_sites(0):
                if bb not in t.reachable(0) or t.blocks[bb]["cleanup"]:
                    continue
                if isinstance(rhs, dict):
                    if rhs["k"] == "agg" and rhs.get("ak") == "adt" and str(rhs.get("variant")) in ("Some", "1") and rhs.get("ops"):
                        n += 1
                        e = expr(t, rhs["ops"][0])
                        res.check(re.match(r"^(as_str\()?get_name\(", e) is not None, rule, "lemma|flag-subcommand-lookup-answers-name|" + q.rsplit("::", 1)[1], t.where(),
                                  "answers Some(%s)" % e[:60],
                                  "%s answers Some(%s): Parser::parse resolves the answer with find_subcommand(..).expect(..), which does not know flag or flag-alias spellings — a flag subcommand reached through an alias (or an inferred prefix of one) panics" % (q.rsplit("::", 1)[1], e[:100]))
                else:
                    cq = rhs.callee_q or ""
                    if re.search(ELEM, cq):
                        n += 1
                        res.violation(rule, "lemma|flag-subcommand-lookup-answers-name|" + q.rsplit("::", 1)[1], rhs.where(),
                                      "%s answers with the element %s(..) found (an alias / flag text), not with the subcommand's get_name(): Parser::parse resolves the answer with find_subcommand(..).expect(..), which does not know flag-alias spellings — `--<alias>` panics" % (q.rsplit("::", 1)[1], cq.rsplit("::", 1)[1]))
    res.floor(rule, "Option<&str> answers of the flag-subcommand lookups", n, 1)


def osstr_find_complete(fx, res, rule):
    """OsStrExt::find(needle) scans EVERY start position 0..=len-needle.len(): `contains`, `split_once` and the `Split` iterator
    (value-delimiter splitting, `--long=value`) are built on it.  The scan may be skipped only when the haystack is strictly
    shorter than the needle — a haystack that IS the needle (`,` for delimiter `,`; the tail after the last delimiter) must be
    found.  Decided from the comparison facts that hold where the scan starts and from the range it walks."""
    fd = fx.body("<std::ffi::os_str::OsStr as clap_lex::ext::OsStrExt>::find")
    H_, N_ = r"len\((as_encoded_bytes\()?(self|bytes)\)?\)", r"len\((as_bytes\()?needle\)?\)"
    scans = [c for c in fd.calls_to(r"Iterator>?::find$")] or [c for c in fd.calls_to(r"Iterator>?::next$") if re.match(r"^into_iter\((new|Range::Range)\(", expr(fd, c.args[0]))]
    if not scans:
        # another search form (delegation to str::find / memchr ...): this lemma has nothing to say; R13.3 find-first decides the form
        res.note("%s osstr_find_complete: OsStrExt::find has no range scan (other form) — not evaluated" % rule)
        return
    for c in scans[:1]:
        strict = [f for f in cmp_facts(fd, c.bb) if (f[0] == "Gt" and re.fullmatch(H_, f[1]) and re.fullmatch(N_, f[2])) or (f[0] == "Lt" and re.fullmatch(N_, f[1]) and re.fullmatch(H_, f[2]))]
        res.check(not strict, rule, "lemma|find-scans-when-lengths-equal", c.where(), "the scan runs whenever len >= needle.len()",
                  "OsStrExt::find reaches its scan only when %s: a haystack exactly as long as the needle is never searched, so `x.find(x)` is None — a value that is just the delimiter (or ends in two) is not split, `contains` misses it" % (strict[:1],))
        rng = re.sub(r"^into_iter\((.*)\)$", r"\1", expr(fd, c.args[0]))
        m = re.match(r"^(new|Range::Range)\(0,(.*)\)$", rng)
        if m:
            incl = m.group(1) == "new"
            end = m.group(2)
            ok = (incl and not re.search(r"Sub\(.*,1\)$|Sub\(Sub\(", end)) or ((not incl) and re.search(r"Add\(.*,1\)$", end) is not None)
            res.check(ok, rule, "lemma|find-range-reaches-last-start", c.where(), "range %s" % rng[:80],
                      "OsStrExt::find walks %s: the last start position len-needle.len() is not visited (a needle at the very end is missed)" % rng[:120])


def full_build_only_on_clones(fx, res, rule):
    """History independence: the only build steps the library runs on the USER's Command (the value that is reused for the
    next parse / render) are the per-level, idempotent `_build_self` and `_build_subcommand`.  The whole-tree passes
    (Command::build, _build_recursive, _build_bin_names_internal) name and expand every descendant relative to the receiver and
    mark the result final — run on a subcommand or on the reused value from inside parsing / suggestion / rendering code they
    leave state behind that a fresh definition does not have.  Inside the library they may run only on a local clone
    (flattened help) or from the build passes themselves; `debug_assert` is the documented public exception (consumes self)."""
    WHOLE = r"Command::(build|_build_recursive|_build_bin_names_internal)$"
    n = 0
    for b in fx.bodies(r"^clap_builder::"):
        top = re.sub(r"(::\{closure#\d+\})+$", "", b.q)
        for c in b.calls_to(WHOLE):
            n += 1
            recv = expr(b, c.args[0])
            inside_build = re.search(r"Command::(build|_build_recursive|_build_bin_names_internal|debug_assert)$", top) is not None
            on_clone = re.match(r"^clone\(", recv) is not None
            res.check(inside_build or on_clone, rule, "lemma|whole-tree-build-only-on-clone|" + top.rsplit("::", 1)[1], c.where(),
                      "%s(%s)" % (c.callee_q.rsplit("::", 1)[1], recv[:50]),
                      "%s runs %s on %s — not a local clone: the whole-tree build names/expands the receiver's descendants as if it were the root and marks them built, on the Command the caller keeps using; a later parse or help render of the reused definition differs from a fresh one" % (top, c.callee_q.rsplit("::", 1)[1], recv[:80]))
    res.floor(rule, "whole-tree build calls in clap_builder", n, 7)


def help_subtree_guard(fx, res, rule):
    """_propagate_global_args keeps global arguments out of the AUTO-GENERATED `help` subcommand (whose words are subcommand
    names, never options): the skip is keyed on the subcommand being named "help" and on is_disable_help_subcommand_set — the
    setting that says whether that subcommand is the generated one.  Any other predicate in that guard (disable_help_flag ...)
    puts options into the help subtree that the parser rejects there."""
    b = fx.body("clap_builder::builder::command::Command::_propagate_global_args")
    preds = sorted(set(c.callee_q.rsplit("::", 1)[1] for t in tree(b) for c in t.calls_to(r"Command::is_\w+_set$") if re.match(r"^self\b", expr(t, c.args[0]))))
    helpcmp = [c for t in tree(b) for c in t.calls_to(r"PartialEq.*::eq$") if any(const_of(t, a) == "help" or expr(t, a) == "'help'" for a in c.args)]
    res.floor(rule, "`== \"help\"` test in _propagate_global_args", len(helpcmp), 1)
    res.check(preds == ["is_disable_help_subcommand_set"], rule, "lemma|generated-help-subtree-keyed-on-disable_help_subcommand", b.where(),
              "the help-subtree skip reads is_disable_help_subcommand_set",
              "_propagate_global_args decides whether `help` is the generated subcommand from %s (expected is_disable_help_subcommand_set only): global options are propagated into (or withheld from) the help subtree under the wrong setting" % preds)
