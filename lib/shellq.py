"""Quoting-context lexers for the generated shells and the exact escape-adequacy decision.

A chain of `str::replace(<single char>, <const>)` calls is a string homomorphism h (each input
character c is mapped to a fixed image h(c), independently of its neighbours).  Text placed at a
point whose lexer state is q is *data* for every input string iff the set of lexer states reachable
from q by reading images h(c) (any sequence of characters c) is {q}, and while reading an image in
bare context only escape pairs / quote openers occur.  The lexer is a finite automaton, the
alphabet is partitioned into finitely many classes (every character mentioned by a replace, every
character special to the shell, and one representative ordinary character), so this is decided
exactly by a closure computation.  Trusted: the quoting grammars tabulated below.
"""

BARE, BARE_E, SQ, SQ_E, SQ1, DQ, DQ_E, DQ1, CMT, BAD = "BARE", "BARE_E", "SQ", "SQ_E", "SQ1", "DQ", "DQ_E", "DQ1", "CMT", "BAD"

PS_SQ = "'\u2018\u2019\u201a\u201b"
PS_DQ = "\"\u201c\u201d\u201e"


def step(shell, st, ch, data):
    """One lexer step.  data=True: the character comes from descriptive text (or its escape image);
    False: generator literal (trusted to be intentional)."""
    if st == BAD:
        return BAD
    if shell == "fish":
        if st == BARE:
            if ch == "'":
                return SQ
            if ch == '"':
                return DQ
            if ch == "\\":
                return BARE_E
            if ch == "#" and not data:
                return BARE
            return BAD if data else BARE
        if st == BARE_E:
            return BARE
        if st == SQ:
            if ch == "\\":
                return SQ_E
            if ch == "'":
                return BARE
            return SQ
        if st == SQ_E:
            # only \\ and \' are escapes; any other char: the backslash was literal, char is literal
            return SQ
        if st == DQ:
            if ch == '"':
                return BARE
            if ch == "\\":
                return DQ_E
            if ch == "$" and data:
                return BAD
            return DQ
        if st == DQ_E:
            return DQ
    if shell in ("zsh", "bash"):
        if st == BARE:
            if ch == "'":
                return SQ
            if ch == '"':
                return DQ
            if ch == "\\":
                return BARE_E
            return BAD if data else BARE
        if st == BARE_E:
            return BARE
        if st == SQ:
            return BARE if ch == "'" else SQ
        if st == DQ:
            if ch == '"':
                return BARE
            if ch == "\\":
                return DQ_E
            if ch in "$`" and data:
                return BAD
            return DQ
        if st == DQ_E:
            return DQ
    if shell == "elvish":
        if st == BARE:
            if ch == "'":
                return SQ
            if ch == '"':
                return DQ
            return BAD if data else BARE
        if st == SQ:
            return SQ1 if ch == "'" else SQ
        if st == SQ1:
            if ch == "'":
                return SQ
            return step(shell, BARE, ch, data)
        if st == DQ:
            if ch == '"':
                return BARE
            if ch == "\\":
                return DQ_E
            return DQ
        if st == DQ_E:
            return DQ
    if shell == "powershell":
        if st == BARE:
            if ch in PS_SQ:
                return SQ
            if ch in PS_DQ:
                return DQ
            if ch == "`":
                return BARE_E
            return BAD if data else BARE
        if st == BARE_E:
            return BARE
        if st == SQ:
            return SQ1 if ch in PS_SQ else SQ
        if st == SQ1:
            if ch in PS_SQ:
                return SQ
            return step(shell, BARE, ch, data)
        if st == DQ:
            if ch in PS_DQ:
                return DQ1
            if ch == "`":
                return DQ_E
            if ch == "$" and data:
                return BAD
            return DQ
        if st == DQ1:
            if ch in PS_DQ:
                return DQ
            return step(shell, BARE, ch, data)
        if st == DQ_E:
            return DQ
    if shell == "nushell":
        # descriptive text is only ever emitted in `# ...` comments
        if st == BARE:
            if ch == "#":
                return CMT
            if ch == '"':
                return DQ
            if ch == "'":
                return SQ
            return BAD if data else BARE
        if st == CMT:
            if ch == "\n":
                return BAD if data else BARE
            return CMT
        if st == DQ:
            if ch == '"':
                return BARE
            if ch == "\\":
                return DQ_E
            return DQ
        if st == DQ_E:
            return DQ
        if st == SQ:
            return BARE if ch == "'" else SQ
    return BAD


def scan(shell, st, text, data=False):
    for ch in text:
        st = step(shell, st, ch, data)
    return st


def settle(st):
    """At the end of an emitted piece a pending 'maybe doubled quote' state is a closed quote."""
    # a piece ending in a generator-written trailing backslash (line continuation) is still bare context:
    # descriptive text can never produce BARE_E (any data character in bare context is already a violation)
    return BARE if st in (SQ1, DQ1, BARE_E) else st


SPECIALS = {
    "fish": "'\"\\$\n#,()",
    "zsh": "'\"\\$`\n[]:()",
    "bash": "'\"\\$`\n",
    "elvish": "'\"\\\n",
    "powershell": PS_SQ + PS_DQ + "`$\n",
    "nushell": "#\"'\\\n\r",
}


def homomorphism(chain):
    """chain: list of (pat, rep) applied innermost first.  Returns function image(c) for one char, or
    None if some step is not a single-character replace with constant operands."""
    for pat, rep in chain:
        if pat is None or rep is None or len(pat) != 1:
            return None

    def image(c):
        s = c
        for pat, rep in chain:
            s = s.replace(pat, rep)
        return s
    return image


def decide(shell, state, chain):
    """Return (ok, witness): is text placed in lexer state `state` after the replace `chain` pure data?"""
    if state in (BARE, BARE_E, BAD):
        return False, "descriptive text reaches a bare (unquoted) context"
    img = homomorphism(chain)
    if img is None:
        return False, "escape chain contains a replace that is not a constant single-character substitution: %r" % (chain,)
    alphabet = set(SPECIALS[shell]) | {"a", " "}
    for pat, rep in chain:
        alphabet |= set(pat) | set(rep)
    # breadth-first closure with witness strings
    reach = {state: ""}
    work = [state]
    while work:
        s = work.pop(0)
        for c in sorted(alphabet):
            st = s
            for ch in img(c):
                st = step(shell, st, ch, True)
                if st == BAD:
                    w = reach[s] + c
                    return False, "input text %r is emitted as %r and changes the token structure (lexer leaves the %s literal)" % (
                        w, "".join(img(x) for x in w), state)
            if st not in reach:
                reach[st] = reach[s] + c
                work.append(st)
    others = [s for s in reach if s != state]
    if others:
        w = reach[others[0]]
        return False, "input text %r is emitted as %r and leaves the lexer in state %s instead of %s (the closing quote no longer closes the literal)" % (
            w, "".join(img(x) for x in w), others[0], state)
    return True, ""
