"""Check harness: fact cache, result collection, evidence, known findings."""
import fcntl, hashlib, json, os, shutil, subprocess, sys, time

VERIF = os.path.dirname(os.path.dirname(os.path.abspath(__file__)))
REPO = os.environ.get("CLAP_REPO", "/repo")
CACHE = os.environ.get("VERIF_CACHE") or os.path.join(VERIF, ".cache")
EVIDENCE = os.environ.get("VERIF_EVIDENCE_DIR") or os.path.join(VERIF, "evidence")
DRIVER = os.path.join(VERIF, "driver", "target", "debug", "clapfacts")

sys.path.insert(0, os.path.join(VERIF, "lib"))
import facts as F  # noqa


def repo_hash():
    h = hashlib.sha256()
    for root, dirs, files in os.walk(REPO):
        dirs[:] = sorted(d for d in dirs if d not in (".git", "target"))
        for f in sorted(files):
            p = os.path.join(root, f)
            if os.path.islink(p):
                continue
            h.update(os.path.relpath(p, REPO).encode())
            h.update(b"\0")
            try:
                with open(p, "rb") as fh:
                    h.update(fh.read())
            except OSError:
                pass
            h.update(b"\0")
    try:
        st = os.stat(DRIVER)
        h.update(("%d-%d" % (st.st_size, int(st.st_mtime))).encode())
    except OSError:
        pass
    h.update(open(os.path.join(VERIF, "bin", "mkfacts"), "rb").read())
    return h.hexdigest()[:24]


def get_facts(config="full"):
    """Return (Facts, info) for /repo's current tree; rebuild through the driver on any change."""
    os.makedirs(CACHE, exist_ok=True)
    key = repo_hash()
    d = os.path.join(CACHE, "%s-%s" % (key, config))
    lock = open(os.path.join(CACHE, "lock-%s" % config), "w")
    fcntl.flock(lock, fcntl.LOCK_EX)
    built = False
    try:
        if not os.path.exists(os.path.join(d, "DONE")):
            if os.path.exists(d):
                shutil.rmtree(d)
            # drop stale caches of this config
            for e in os.listdir(CACHE):
                if e.endswith("-" + config) and os.path.isdir(os.path.join(CACHE, e)):
                    shutil.rmtree(os.path.join(CACHE, e), ignore_errors=True)
            if not os.path.exists(DRIVER):
                print("ERROR driver-missing: run MANIFEST.setup_cmd first")
                sys.exit(2)
            r = subprocess.run([os.path.join(VERIF, "bin", "mkfacts"), d, config],
                               stdout=subprocess.PIPE, stderr=subprocess.STDOUT, text=True)
            if r.returncode != 0:
                print("ERROR fact-extraction-failed config=%s (the tree under /repo does not compile?)" % config)
                print(r.stdout[-4000:])
                sys.exit(2)
            open(os.path.join(d, "DONE"), "w").write(key)
            built = True
    finally:
        fcntl.flock(lock, fcntl.LOCK_UN)
    fx = F.load_facts(d, config)
    return fx, {"cache_dir": d, "rebuilt": built, "repo_hash": key}


class Results:
    def __init__(self, pid):
        self.pid = pid
        self.items = []      # dict(rule,key,status,where,detail)
        self.analysed = {}
        self.notes = []
        self.anchor_errors = []

    def _add(self, status, rule, key, where, detail, path=None):
        self.items.append({"rule": rule, "key": "%s|%s" % (rule, key), "status": status,
                           "where": where, "detail": detail, "path": path})

    def ok(self, rule, key, where, detail=""):
        self._add("ok", rule, key, where, detail)

    def audited(self, rule, key, where, detail=""):
        self._add("audited", rule, key, where, detail)

    def violation(self, rule, key, where, detail, path=None):
        self._add("violation", rule, key, where, detail, path)

    def note(self, s):
        self.notes.append(s)

    def floor(self, rule, what, count, minimum):
        """A rule that matches fewer instances than confirmed by hand fails closed: the check ends with
        exit 2 (ERROR anchor-missing) unless a violation was found as well, which is then reported."""
        if count < minimum:
            self.anchor_errors.append("%s: %s: found %d instance(s), floor is %d" % (rule, what, count, minimum))

    def check(self, cond, rule, key, where, detail_ok="", detail_bad="", path=None):
        if cond:
            self.ok(rule, key, where, detail_ok)
        else:
            self.violation(rule, key, where, detail_bad or detail_ok, path)
        return cond


def load_known():
    p = os.path.join(VERIF, "known_findings.json")
    if not os.path.exists(p):
        return []
    return json.load(open(p))["findings"]


def finish(pid, res, tier, t0, explanation, trusted, assumptions, facts_info, fx_list):
    """Write evidence, print VIOLATION / KNOWN-FINDING lines, return exit code."""
    known = [k for k in load_known() if k["property"] == pid and k.get("status", "known") == "known"]
    known_keys = {k["key"]: k for k in known}
    viol = [i for i in res.items if i["status"] == "violation"]
    # de-duplicate by key
    seen = set()
    uviol = []
    for v in viol:
        if v["key"] in seen:
            continue
        seen.add(v["key"])
        uviol.append(v)
    new = [v for v in uviol if v["key"] not in known_keys]
    listed = [v for v in uviol if v["key"] in known_keys]
    os.makedirs(EVIDENCE, exist_ok=True)
    os.makedirs(os.path.join(EVIDENCE, "replay"), exist_ok=True)
    rules = {}
    for i in res.items:
        r = rules.setdefault(i["rule"], {"instances": 0, "ok": 0, "audited": 0, "violations": 0})
        r["instances"] += 1
        r[{"ok": "ok", "audited": "audited", "violation": "violations"}[i["status"]]] += 1
    samples = []
    per_rule_seen = {}
    for i in res.items:
        n = per_rule_seen.get(i["rule"], 0)
        if n < 3:
            per_rule_seen[i["rule"]] = n + 1
            samples.append({"rule": i["rule"], "instance": i["key"], "status": i["status"],
                            "where": i["where"], "detail": i["detail"]})
    analysed = {}
    for fx in fx_list:
        analysed[fx.config] = {c.name: {"bodies": len(c.bodies), "features": c.features}
                               for c in fx.crates.values()}
    obligations = len(res.items)
    discharged = len([i for i in res.items if i["status"] != "violation"])
    ev = {
        "property_id": pid,
        "tier": tier,
        "seed": int(os.environ.get("VERIF_SEED", "0") or 0),
        "level": "other",
        "coverage": {
            "explanation": explanation,
            "obligations": obligations,
            "discharged": discharged,
            "evaluations": obligations,
            "distinct_nontrivial": len(set(i["key"] for i in res.items)),
            "rule": "one evaluation = one rule instance (call site / CFG path obligation / table row) found in /repo's "
                    "type-checked MIR; distinct = distinct instance keys (rule + function + construct)",
            "rules": rules,
            "samples": samples,
            "analysed": analysed,
            "checker_cmd": "./check %s --tier %s" % (pid, tier),
            "trusted_base": trusted,
            "known_findings_listed": [v["key"] for v in listed],
            "notes": res.notes,
            "repo_hash": facts_info.get("repo_hash"),
            "exhaustive": False,
        },
        "assumptions": assumptions,
        "wall_s": round(time.time() - t0, 3),
        "violations": len(new),
    }
    with open(os.path.join(EVIDENCE, "%s.json" % pid), "w") as fh:
        json.dump(ev, fh, indent=1)
    for k in listed:
        print("KNOWN-FINDING: property=%s %s :: %s" % (pid, k["key"], known_keys[k["key"]]["what"]))
    # stale known entries: info only
    for k in known:
        if k["key"] not in seen:
            print("INFO: known finding no longer reported: %s" % k["key"])
    print("%s: %d rule instances, %d discharged, %d known finding(s), %d new violation(s) [%s, %.1fs]" % (
        pid, obligations, discharged, len(listed), len(new), tier, time.time() - t0))
    for r, c in sorted(rules.items()):
        print("  %-8s instances=%d ok=%d audited=%d violations=%d" % (r, c["instances"], c["ok"], c["audited"], c["violations"]))
    if new:
        for n, v in enumerate(new):
            rp = os.path.join(EVIDENCE, "replay", "%s-%d.json" % (pid, n))
            with open(rp, "w") as fh:
                json.dump(v, fh, indent=1)
            print("  -> %s at %s: %s" % (v["key"], v["where"], v["detail"]))
            print("VIOLATION property=%s replay=%s" % (pid, rp))
        return 1
    return 0


def get_corpus_facts():
    """Facts of /verif/corpus compiled against /repo's current clap + clap_derive (E3)."""
    os.makedirs(CACHE, exist_ok=True)
    h = hashlib.sha256()
    h.update(repo_hash().encode())
    for root, dirs, files in os.walk(os.path.join(VERIF, "corpus")):
        dirs[:] = sorted(d for d in dirs if d not in ("target",))
        for f in sorted(files):
            if f == "Cargo.lock":
                continue
            h.update(f.encode())
            h.update(open(os.path.join(root, f), "rb").read())
    h.update(open(os.path.join(VERIF, "bin", "mkcorpusfacts"), "rb").read())
    key = h.hexdigest()[:24]
    d = os.path.join(CACHE, "%s-corpus" % key)
    lock = open(os.path.join(CACHE, "lock-corpus"), "w")
    fcntl.flock(lock, fcntl.LOCK_EX)
    try:
        if not os.path.exists(os.path.join(d, "DONE")):
            for e in os.listdir(CACHE):
                if e.endswith("-corpus") and os.path.isdir(os.path.join(CACHE, e)):
                    shutil.rmtree(os.path.join(CACHE, e), ignore_errors=True)
            r = subprocess.run([os.path.join(VERIF, "bin", "mkcorpusfacts"), d], stdout=subprocess.PIPE, stderr=subprocess.STDOUT, text=True)
            if r.returncode != 0:
                print("ERROR corpus-extraction-failed (clap_derive output for the corpus does not compile?)")
                print(r.stdout[-4000:])
                sys.exit(2)
            open(os.path.join(d, "DONE"), "w").write(key)
    finally:
        fcntl.flock(lock, fcntl.LOCK_UN)
    return F.load_facts(d, "corpus")
