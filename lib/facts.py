"""E1 core: load clapfacts JSON, qualified names, CFG, dominance, edge-dominance,
provenance (backward) and taint (forward) primitives.  Python stdlib only.

Nothing here executes clap; every query is over the compiler's facts.
"""
import json, os, re, sys
from collections import defaultdict, deque


class AnchorMissing(Exception):
    """An anchor function / crate / instance floor is missing: fail closed (exit 2)."""


_GEN = re.compile(r"::<[^<>]*(?:<[^<>]*(?:<[^<>]*>[^<>]*)*>[^<>]*)*>")


def strip_generics(p):
    """Remove `::<...>` turbofish segments (up to 3 nesting levels)."""
    prev = None
    while prev != p:
        prev = p
        p = _GEN.sub("", p)
    return p


def strip_ty_generics(t):
    """`Foo<'a, T>` -> `Foo` for the outermost type; leaves primitives alone."""
    depth = 0
    out = []
    for ch in t:
        if ch == "<":
            depth += 1
        elif ch == ">":
            depth -= 1
        elif depth == 0:
            out.append(ch)
    return "".join(out)


# ----------------------------------------------------------------------------- operands / places

def op_place(o):
    if o is None:
        return None
    if "cp" in o:
        return o["cp"]
    if "mv" in o:
        return o["mv"]
    return None


def pl_local(p):
    if p is None:
        return None
    return p if isinstance(p, int) else p[0]


def pl_proj(p):
    return [] if isinstance(p, int) else p[1:]


def op_local(o):
    return pl_local(op_place(o))


def op_is_const(o):
    return o is not None and ("int" in o or "c" in o or "fn" in o)


def op_int(o):
    return o.get("int") if o else None


_ESC = re.compile(r'\\(u\{[0-9a-fA-F]+\}|x[0-9a-fA-F]{2}|.)')


def rust_unescape(s):
    def r(m):
        g = m.group(1)
        if g[0] == "u":
            return chr(int(g[2:-1], 16))
        if g[0] == "x":
            return chr(int(g[1:], 16))
        return {"n": "\n", "t": "\t", "r": "\r", "0": "\0", "\\": "\\", '"': '"', "'": "'"}.get(g, g)
    return _ESC.sub(r, s)


def const_str(o):
    """Value of a `const "..."` / `const '.'` operand, else None."""
    if not o or "c" not in o:
        return None
    c = o["c"]
    if c.startswith("const "):
        c = c[6:]
    if len(c) >= 2 and c[0] == '"' and c[-1] == '"':
        return rust_unescape(c[1:-1])
    if len(c) >= 3 and c[0] == "'" and c[-1] == "'":
        return rust_unescape(c[1:-1])
    return None


def op_char(o):
    """A char constant is dumped as int with ty char."""
    if o and "int" in o and o.get("ty") == "char":
        return chr(o["int"])
    return None


def const_val_list(val):
    """Parse evaluated const display like '["y", "yes"]' -> ['y','yes'];  '"abc"' -> 'abc'; '4_usize' -> 4."""
    if val is None:
        return None
    v = val.strip()
    if v.startswith("const "):
        v = v[6:]
    if v.startswith("&"):
        v = v[1:]
    if v.startswith("["):
        items = re.findall(r'"((?:[^"\\]|\\.)*)"', v)
        return [rust_unescape(x) for x in items]
    if v.startswith('"'):
        return rust_unescape(v[1:-1])
    m = re.match(r"^(-?\d+)_?[iu](\d+|size)$", v)
    if m:
        return int(m.group(1))
    if v in ("true", "false"):
        return v == "true"
    return v


# ----------------------------------------------------------------------------- span helpers

def sp_file(sp):
    return sp[0] if sp else None


def sp_line(sp):
    return sp[1] if sp else None


def sp_macro(sp):
    return sp[5] if sp and len(sp) > 5 else None


def sp_contains(outer, inner):
    """outer/inner: [file, l, c, l2, c2, ...]"""
    if not outer or not inner or outer[0] != inner[0]:
        return False
    return (outer[1], outer[2]) <= (inner[1], inner[2]) and (inner[3], inner[4]) <= (outer[3], outer[4])


def sp_str(sp):
    if not sp:
        return "?"
    return "%s:%d:%d" % (sp[0], sp[1], sp[2])


# ----------------------------------------------------------------------------- model

class Call:
    __slots__ = ("body", "bb", "t", "callee_q", "decl_q", "args", "dest", "target", "sp", "rk")

    def __init__(self, body, bb, t):
        self.body = body
        self.bb = bb
        self.t = t
        cr = body.crate
        ci = t.get("callee")
        self.callee_q = cr.q[ci] if ci is not None else None
        di = t.get("decl")
        self.decl_q = cr.q[di] if di is not None else None
        self.args = t["args"]
        self.dest = t["dest"]
        self.target = t["target"]
        self.sp = t["sp"]
        self.rk = t["rk"]

    @property
    def callee_def(self):
        ci = self.t.get("callee")
        return self.body.crate.defs[ci] if ci is not None else None

    @property
    def closures(self):
        """qnames of closure bodies appearing in the callee's generic args."""
        return [self.body.crate.q[i] for i in self.t.get("closures", [])]

    @property
    def fnitems(self):
        return [self.body.crate.q[i] for i in self.t.get("fnitems", [])]

    @property
    def targs(self):
        return self.t.get("targs", [])

    def is_(self, *pats):
        """callee (resolved or declared) qname matches any regex (search)."""
        for p in pats:
            if self.callee_q and re.search(p, self.callee_q):
                return True
            if self.decl_q and re.search(p, self.decl_q):
                return True
        return False

    def where(self):
        return "%s in %s" % (sp_str(self.sp), self.body.q)

    def __repr__(self):
        return "<call %s @%s bb%d>" % (self.callee_q or self.decl_q, sp_str(self.sp), self.bb)


class Body:
    def __init__(self, crate, j):
        self.crate = crate
        self.j = j
        self.defi = j["def"]
        self.d = crate.defs[self.defi]
        self.q = crate.q[self.defi]
        self.kind = self.d["kind"]
        self.blocks = j["blocks"]
        self.locals = j["locals"]
        self.argc = j["argc"]
        self.span = j["span"]
        self.file = j["span"][0]
        self.children = []   # closure bodies created inside
        self.parent = None
        self._succ = None
        self._pred = None
        self._dom = None
        self._calls = None
        self._defsites = None

    # ---- naming
    def local_name(self, l):
        return self.locals[l][1]

    def local_ty(self, l):
        return self.locals[l][0]

    def locals_named(self, name):
        return [i for i, (t, n) in enumerate(self.locals) if n == name]

    def where(self):
        return "%s (%s)" % (self.q, sp_str(self.span))

    # ---- CFG (normal edges only; unwind/cleanup ignored)
    def succ(self, b=None):
        if self._succ is None:
            s = []
            for bl in self.blocks:
                t = bl["term"]
                k = t["k"]
                if k == "goto":
                    s.append([t["target"]])
                elif k == "switch":
                    out = []
                    for v, bb in t["targets"]:
                        if bb not in out:
                            out.append(bb)
                    if t["otherwise"] not in out:
                        out.append(t["otherwise"])
                    s.append(out)
                elif k in ("call",):
                    s.append([t["target"]] if t["target"] is not None else [])
                elif k in ("drop", "assert"):
                    s.append([t["target"]])
                else:
                    s.append([])
            self._succ = s
        return self._succ if b is None else self._succ[b]

    def pred(self, b=None):
        if self._pred is None:
            p = [[] for _ in self.blocks]
            for i, ss in enumerate(self.succ()):
                for s in ss:
                    p[s].append(i)
            self._pred = p
        return self._pred if b is None else self._pred[b]

    def reachable(self, start=0, without_edge=None, without_blocks=()):
        seen = set()
        if start in without_blocks:
            return seen
        dq = deque([start])
        seen.add(start)
        succ = self.succ()
        while dq:
            x = dq.popleft()
            for s in succ[x]:
                if without_edge is not None and (x, s) == without_edge:
                    continue
                if s in without_blocks or s in seen:
                    continue
                seen.add(s)
                dq.append(s)
        return seen

    def live_blocks(self):
        """Blocks reachable from entry along normal edges whose false-edge constants are
        not considered (purely structural)."""
        return self.reachable(0)

    def edge_dominates(self, edge, b):
        """Every entry->b path uses edge (s,t)."""
        if b not in self.reachable(0):
            return True  # dead block: vacuous
        return b not in self.reachable(0, without_edge=edge)

    def block_dominates(self, a, b):
        if a == b:
            return True
        if b not in self.reachable(0):
            return True
        return b not in self.reachable(0, without_blocks=(a,))

    def reaches(self, a, b, without_blocks=()):
        """b reachable from a (a != b counts paths of length>=1; a==b True)."""
        if a == b:
            return True
        return b in self.reachable(a, without_blocks=without_blocks)

    def return_blocks(self):
        live = self.reachable(0)
        return [i for i in live if self.blocks[i]["term"]["k"] == "return"]

    def must_pass(self, targets, frm=0, to=None, without_blocks=()):
        """Every path frm -> (each block in `to`, default: every return) passes a block in `targets`.
        Returns list of `to` blocks reachable while avoiding targets (empty == holds)."""
        if to is None:
            to = self.return_blocks()
        avoid = set(targets) | set(without_blocks)
        if frm in avoid:
            return []
        r = self.reachable(frm, without_blocks=avoid)
        return [t for t in to if t in r]

    # ---- calls
    def calls(self):
        if self._calls is None:
            cs = []
            for i, bl in enumerate(self.blocks):
                t = bl["term"]
                if t["k"] == "call":
                    cs.append(Call(self, i, t))
            self._calls = cs
        return self._calls

    def calls_to(self, *pats, live_only=True):
        live = self.reachable(0) if live_only else None
        return [c for c in self.calls() if c.is_(*pats) and (live is None or c.bb in live)]

    # ---- statements
    def stmts(self):
        for i, bl in enumerate(self.blocks):
            for j, s in enumerate(bl["stmts"]):
                yield i, j, s

    def def_sites(self, local):
        """All writes whose base local is `local`: list of (bb, idx|'term', lhs_place, rhs) where
        rhs is the rvalue dict or the Call."""
        if self._defsites is None:
            ds = defaultdict(list)
            for i, j, s in self.stmts():
                if s["k"] == "assign":
                    ds[pl_local(s["place"])].append((i, j, s["place"], s["rv"]))
            for c in self.calls():
                ds[pl_local(c.dest)].append((c.bb, "term", c.dest, c))
            self._defsites = ds
        return self._defsites.get(local, [])

    # ---- branch helpers
    def bool_branch(self, local, start_bb):
        """Find the SwitchInt that tests bool `local` (or a copy / negation of it) starting
        at start_bb following straight-line gotos.  Returns (switch_bb, true_bb, false_bb) or None."""
        aliases = {local: True}   # local -> polarity (True: same, False: negated)
        b = start_bb
        seen = set()
        while b is not None and b not in seen:
            seen.add(b)
            bl = self.blocks[b]
            for s in bl["stmts"]:
                if s["k"] != "assign":
                    continue
                rv = s["rv"]
                dst = s["place"]
                if not isinstance(dst, int):
                    continue
                if rv["k"] == "use" and op_local(rv["op"]) in aliases and isinstance(op_place(rv["op"]), int):
                    aliases[dst] = aliases[op_local(rv["op"])]
                elif rv["k"] == "unop" and rv["op"] == "Not" and op_local(rv["a"]) in aliases:
                    aliases[dst] = not aliases[op_local(rv["a"])]
            t = bl["term"]
            if t["k"] == "switch":
                l = op_local(t["op"])
                if l in aliases and isinstance(op_place(t["op"]), int):
                    f = None
                    for v, bb in t["targets"]:
                        if v == 0:
                            f = bb
                    tr = t["otherwise"]
                    if f is None:
                        return None
                    if aliases[l]:
                        return (b, tr, f)
                    return (b, f, tr)
                return None
            if t["k"] == "goto":
                b = t["target"]
            elif t["k"] == "drop":
                b = t["target"]
            else:
                return None
        return None

    def call_branch(self, call):
        """For a call returning bool: (switch_bb, true_bb, false_bb) of the branch on its result."""
        if call.target is None or not isinstance(call.dest, int):
            return None
        return self.bool_branch(call.dest, call.target)

    def discr_switches(self, local=None):
        """All `x = discriminant(place); switchInt(x)` pairs: yields (bb, place, ty, {val:target}, otherwise)."""
        out = []
        for i, bl in enumerate(self.blocks):
            t = bl["term"]
            if t["k"] != "switch":
                continue
            l = op_local(t["op"])
            for s in reversed(bl["stmts"]):
                if s["k"] == "assign" and s["place"] == l and s["rv"]["k"] == "discr":
                    pl = s["rv"]["place"]
                    if local is None or pl_local(pl) == local:
                        out.append((i, pl, s["rv"]["ty"], dict((v, bb) for v, bb in t["targets"]), t["otherwise"]))
                    break
        return out


class Crate:
    def __init__(self, j):
        self.j = j
        self.name = j["crate"]
        self.features = j["features"]
        self.defs = j["defs"]
        self.q = [None] * len(self.defs)
        for i in range(len(self.defs)):
            self._qname(i)
        self.bodies = [Body(self, b) for b in j["bodies"]]
        self.by_def = {b.defi: b for b in self.bodies}
        for b in self.bodies:
            if b.kind == "Closure" and b.d["parent"] is not None:
                p = self.by_def.get(b.d["parent"])
                if p is not None:
                    b.parent = p
                    p.children.append(b)
        self.adts = {a["path"]: a for a in j["adts"]}
        self.consts = {strip_generics(c["path"]): c for c in j["consts"]}
        self.fmt = j["fmt"]
        self.matches = j["matches"]
        self.casts = j["casts"]
        self.unsafes = j["unsafes"]
        self.impls = j["impls"]

    def _qname(self, i):
        if self.q[i] is not None:
            return self.q[i]
        d = self.defs[i]
        name = d["name"]
        if d["kind"] == "Closure" and d["parent"] is not None:
            pq = self._qname(d["parent"])
            tail = d["path"].rsplit("::", 1)[-1]
            q = pq + "::" + tail
        elif d["container"] == "impl":
            st = d["self_adt"] or strip_ty_generics(d["self_ty"])
            if d["trait"]:
                q = "<%s as %s>::%s" % (st, d["trait"], name)
            else:
                q = "%s::%s" % (st, name)
        elif d["container"] == "trait":
            q = "%s::%s" % (d["trait"], name)
        else:
            q = strip_generics(d["path"])
        self.q[i] = q
        return q


class Facts:
    def __init__(self, crates, config="full"):
        self.crates = crates          # name -> Crate
        self.config = config
        self.by_q = defaultdict(list)
        for c in crates.values():
            for b in c.bodies:
                self.by_q[b.q].append(b)
        self._impl_index = None
        self._cg = {}

    # ---- lookup (fail closed)
    def crate(self, name):
        if name not in self.crates:
            raise AnchorMissing("crate %s not analysed" % name)
        return self.crates[name]

    def bodies(self, pat, crate=None):
        rx = re.compile(pat)
        out = []
        for c in self.crates.values():
            if crate and c.name != crate:
                continue
            for b in c.bodies:
                if rx.search(b.q):
                    out.append(b)
        return out

    def body(self, q, crate=None):
        """Exactly one body whose qname == q or ends with '::'+q."""
        c = [b for b in self.by_q.get(q, []) if not crate or b.crate.name == crate]
        if not c:
            rx = re.compile(r"(^|::|<)" + re.escape(q) + "$")
            c = [b for bs in self.by_q.values() for b in bs if rx.search(b.q) and (not crate or b.crate.name == crate)]
        if len(c) != 1:
            raise AnchorMissing("anchor function %s: expected 1 body, found %d%s" % (
                q, len(c), (" (" + ", ".join(x.q for x in c[:4]) + ")") if c else ""))
        return c[0]

    def maybe_body(self, q, crate=None):
        try:
            return self.body(q, crate)
        except AnchorMissing:
            return None

    def const(self, path_suffix):
        for c in self.crates.values():
            for p, cv in c.consts.items():
                if p == path_suffix or p.endswith("::" + path_suffix):
                    return cv
        raise AnchorMissing("const %s not found" % path_suffix)

    def adt(self, path_suffix):
        for c in self.crates.values():
            for p, a in c.adts.items():
                if p == path_suffix or p.endswith("::" + path_suffix):
                    return a
        raise AnchorMissing("type %s not found" % path_suffix)

    # ---- call graph
    def impl_index(self):
        if self._impl_index is None:
            ix = defaultdict(list)
            for c in self.crates.values():
                for b in c.bodies:
                    d = b.d
                    if d["container"] == "impl" and d["trait"]:
                        ix[(d["trait"], d["name"])].append(b)
            self._impl_index = ix
        return self._impl_index

    def callee_bodies(self, call):
        """Workspace bodies this call may enter (resolved; or fan-out for unresolved trait calls)."""
        out = []
        if call.callee_q and call.rk in ("item", "closure_once", "reify", "fnptr_shim"):
            out = list(self.by_q.get(call.callee_q, []))
            if out or call.rk == "item" and call.callee_def and call.callee_def["container"] != "trait":
                return out
        d = call.callee_def
        if d is not None and d["container"] == "trait":
            out = list(self.impl_index().get((d["trait"], d["name"]), []))
        return out

    def edges(self, body):
        """Bodies directly entered from `body`: callees, closures created, fn items referenced."""
        k = id(body)
        if k in self._cg:
            return self._cg[k]
        out = []
        seen = set()

        def add(b):
            if id(b) not in seen:
                seen.add(id(b))
                out.append(b)
        for ch in body.children:
            add(ch)
        for c in body.calls():
            for b in self.callee_bodies(c):
                add(b)
            for q in c.closures + c.fnitems:
                for b in self.by_q.get(q, []):
                    add(b)
        # fn items used as values (e.g. `.map(Arg::get_id)`)
        for i, j, s in body.stmts():
            if s["k"] == "assign":
                for o in rv_operands(s["rv"]):
                    if o and "fn" in o:
                        q = body.crate.q[o["fn"]]
                        for b in self.by_q.get(q, []):
                            add(b)
        self._cg[k] = out
        return out

    def reachable_from(self, entries, stop=lambda b: False, crates=None):
        """Transitive closure over `edges`; returns dict body -> predecessor body (for paths)."""
        pred = {}
        dq = deque()
        for e in entries:
            pred[id(e)] = (e, None)
            dq.append(e)
        while dq:
            b = dq.popleft()
            if stop(b):
                continue
            for n in self.edges(b):
                if crates and n.crate.name not in crates:
                    continue
                if id(n) not in pred:
                    pred[id(n)] = (n, b)
                    dq.append(n)
        return pred

    @staticmethod
    def path_to(pred, body):
        p = []
        cur = body
        while cur is not None:
            p.append(cur.q)
            cur = pred[id(cur)][1]
        return list(reversed(p))


def rv_operands(rv):
    k = rv["k"]
    if k in ("use", "repeat", "cast"):
        return [rv["op"]]
    if k == "binop":
        return [rv["a"], rv["b"]]
    if k == "unop":
        return [rv["a"]]
    if k == "agg":
        return rv["ops"]
    return []


def rv_places(rv):
    """Places read by an rvalue."""
    out = [op_place(o) for o in rv_operands(rv)]
    if rv["k"] in ("ref", "rawptr", "discr"):
        out.append(rv["place"])
    return [p for p in out if p is not None]


# ----------------------------------------------------------------------------- provenance (P4)

class Origin:
    """A root of a backward slice."""
    __slots__ = ("kind", "body", "call", "detail")

    def __init__(self, kind, body, call=None, detail=None):
        self.kind = kind      # 'call' | 'param' | 'const' | 'agg' | 'binop' | 'upvar' | 'other'
        self.body = body
        self.call = call
        self.detail = detail

    def __repr__(self):
        if self.kind == "call":
            return "<origin call %s>" % (self.call.callee_q or self.call.decl_q)
        return "<origin %s %r>" % (self.kind, self.detail)


DEFAULT_PASS = [
    r"::deref$", r"::deref_mut$", r"::as_ref$", r"::as_mut$", r"::borrow$", r"::as_deref$",
    r"::clone$", r"::to_owned$", r"::into$", r"::from$", r"::as_str$", r"::as_os_str$",
    r"Option::unwrap$", r"Option::expect$", r"Result::unwrap$", r"Result::expect$",
    r"Option::unwrap_or_default$", r"Option::copied$", r"Option::cloned$",
    r"::into_iter$", r"::iter$", r"Try::branch$", r"Try>::branch$", r"::as_slice$",
]


def origins(body, place_or_op, passthrough=DEFAULT_PASS, max_nodes=4000, follow_args=(0,)):
    """Flow-insensitive backward slice of a local within `body`.
    Through: use/ref/cast/copy-for-deref, field/deref/downcast projections (ignored),
    calls matching `passthrough` (through the arguments listed in follow_args).
    Returns list[Origin]."""
    start = place_or_op
    if isinstance(start, dict):
        if op_is_const(start):
            return [Origin("const", body, detail=start)]
        start = op_place(start)
    l0 = pl_local(start)
    out = []
    seen = set()
    work = [l0]
    n = 0
    while work:
        l = work.pop()
        if l in seen:
            continue
        seen.add(l)
        n += 1
        if n > max_nodes:
            out.append(Origin("other", body, detail="budget"))
            break
        if 1 <= l <= body.argc:
            out.append(Origin("param", body, detail=l))
            # params may also be reassigned; fall through
        sites = body.def_sites(l)
        if not sites and not (1 <= l <= body.argc):
            out.append(Origin("other", body, detail=("undef", l)))
        for (bb, idx, lhs, rhs) in sites:
            if isinstance(rhs, Call):
                c = rhs
                if c.is_(*passthrough) and c.args:
                    pushed = False
                    for ai in follow_args:
                        if ai < len(c.args):
                            a = c.args[ai]
                            if op_is_const(a):
                                out.append(Origin("const", body, detail=a))
                            else:
                                work.append(op_local(a))
                            pushed = True
                    if pushed:
                        continue
                out.append(Origin("call", body, call=c))
                continue
            rv = rhs
            k = rv["k"]
            if k in ("use", "cast", "repeat"):
                o = rv["op"]
                if op_is_const(o):
                    out.append(Origin("const", body, detail=o))
                else:
                    work.append(op_local(o))
            elif k in ("ref", "rawptr"):
                work.append(pl_local(rv["place"]))
            elif k == "agg":
                if rv["ak"] in ("tuple", "array", "adt"):
                    any_ = False
                    for o in rv["ops"]:
                        if op_is_const(o):
                            continue
                        work.append(op_local(o))
                        any_ = True
                    out.append(Origin("agg", body, detail=rv))
                else:
                    out.append(Origin("agg", body, detail=rv))
            elif k in ("binop", "unop"):
                out.append(Origin("binop", body, detail=rv))
            elif k == "discr":
                out.append(Origin("other", body, detail=rv))
            else:
                out.append(Origin("other", body, detail=rv))
    return out


def origin_calls(body, place_or_op, **kw):
    return [o.call for o in origins(body, place_or_op, **kw) if o.kind == "call"]


# ----------------------------------------------------------------------------- forward taint (intraprocedural)

def taint_forward(body, seeds, call_transfer=None, stop_calls=()):
    """Flow-insensitive forward taint over locals of one body.
    seeds: iterable of locals.  call_transfer(call, tainted_arg_indices) -> bool (dest tainted?)
    default: dest tainted if any arg tainted.  Also: a call with a tainted arg taints `&mut`
    receivers (arg 0) when the callee name looks like a mutator (push/extend/insert/write)."""
    tainted = set(seeds)
    changed = True
    while changed:
        changed = False
        for i, j, s in body.stmts():
            if s["k"] != "assign":
                continue
            dl = pl_local(s["place"])
            if dl in tainted:
                continue
            for p in rv_places(s["rv"]):
                if pl_local(p) in tainted:
                    tainted.add(dl)
                    changed = True
                    break
        for c in body.calls():
            ta = [k for k, a in enumerate(c.args) if op_local(a) in tainted]
            if not ta:
                continue
            if c.is_(*stop_calls) if stop_calls else False:
                continue
            dl = pl_local(c.dest)
            hit = call_transfer(c, ta) if call_transfer else True
            if hit and dl not in tainted:
                tainted.add(dl)
                changed = True
            # mutation through &mut receiver
            if c.is_(r"::push$", r"::push_str$", r"::extend$", r"::insert$", r"::push_back$", r"::extend_from_slice$", r"::append$") and c.args:
                rl = op_local(c.args[0])
                if 0 not in ta and rl is not None:
                    # receiver is a reborrow temp: taint what it refers to
                    for o in _ref_targets(body, rl):
                        if o not in tainted:
                            tainted.add(o)
                            changed = True
    return tainted


def _ref_targets(body, l, depth=0):
    out = {l}
    if depth > 6:
        return out
    for (bb, idx, lhs, rhs) in body.def_sites(l):
        if isinstance(rhs, Call):
            if rhs.is_(r"::deref_mut$", r"::as_mut$") and rhs.args:
                out |= _ref_targets(body, op_local(rhs.args[0]), depth + 1)
            continue
        if rhs["k"] in ("ref", "rawptr"):
            out |= _ref_targets(body, pl_local(rhs["place"]), depth + 1)
        elif rhs["k"] == "use" and op_place(rhs["op"]) is not None:
            out |= _ref_targets(body, op_local(rhs["op"]), depth + 1)
    return out


# ----------------------------------------------------------------------------- loading

def load_facts(d, config="full"):
    crates = {}
    files = sorted(f for f in os.listdir(d) if f.endswith(".json"))
    for f in files:
        with open(os.path.join(d, f)) as fh:
            j = json.load(fh)
        if j.get("is_test"):
            continue
        name = j["crate"]
        if name in crates:
            # same crate compiled twice (host/target): keep the one with more bodies
            if len(j["bodies"]) <= len(crates[name].j["bodies"]):
                continue
        crates[name] = Crate(j)
    return Facts(crates, config)


# ----------------------------------------------------------------------------- expression trees (for guard rules)

def _short(q):
    if q is None:
        return "?"
    q = re.sub(r"<([^<>]*) as ([^<>]*)>", lambda m: m.group(1), q)
    parts = q.split("::")
    return "::".join(parts[-2:]) if len(parts) >= 2 else q


def expr(body, o, depth=None, _seen=None):
    """Canonical string for the value an operand/place holds, following single-definition temps,
    e.g.  Lt(len(raw_vals),min_values(expected)).  The string of a sub-expression does not depend
    on where it is nested (memoised per local), so guard and site expressions compare by equality."""
    if isinstance(o, dict):
        if "int" in o:
            return str(o["int"])
        if "fn" in o:
            return "fn:" + _short(body.crate.q[o["fn"]])
        if "c" in o:
            s = const_str(o)
            if s is not None:
                return repr(s)
            if "promoted" in o:
                pb = body.j.get("promoted", [])
                if o["promoted"] < len(pb):
                    for bl in pb[o["promoted"]]:
                        for st in bl["stmts"]:
                            if st["k"] == "assign" and st["rv"]["k"] == "use" and "c" in st["rv"]["op"]:
                                cs = const_str(st["rv"]["op"])
                                return repr(cs) if cs is not None else "&" + st["rv"]["op"]["c"].replace("const ", "")
            return o["c"].replace("const ", "")
        p = op_place(o)
    else:
        p = o
    l = pl_local(p)
    suffix = ""
    for el in pl_proj(p):
        if el == "*":
            continue
        if el.startswith("."):
            suffix += "." + el[1:].split("@")[0]
        elif el.startswith("as#"):
            suffix += "#" + el.split("#")[1]
        else:
            suffix += el
    base = _expr_local(body, l, _seen or frozenset())
    if base.endswith("\u27c2"):
        # checked arithmetic yields (value, overflowed): `.0` is the value itself
        base = base[:-1]
        if suffix.startswith(".0"):
            suffix = suffix[2:]
    return base + suffix


def _expr_local(body, l, seen):
    memo = body.__dict__.setdefault("_expr_memo", {})
    if l in memo:
        return memo[l]
    name = body.local_name(l)
    sites = body.def_sites(l)
    whole = [s for s in sites if isinstance(s[2], int)]
    if name and (len(whole) != 1 or 1 <= l <= body.argc):
        r = name
    elif 1 <= l <= body.argc:
        r = "arg%d" % l
    elif l in seen or len(whole) != 1 or len(seen) > 60:
        return name or "_%d" % l       # cycle / multi-def temp: not memoised under this context
    else:
        seen = seen | {l}
        (bb, idx, lhs, rhs) = whole[0]
        if isinstance(rhs, Call):
            c = rhs
            nm = _short(c.callee_q or c.decl_q)
            if c.is_(r"::deref$", r"::as_ref$", r"::borrow$", r"Option::as_deref$") and len(c.args) == 1:
                r = expr(body, c.args[0], None, seen)
            else:
                r = "%s(%s)" % (nm.split("::")[-1] if not nm.startswith("{") else nm,
                                ",".join(expr(body, a, None, seen) for a in c.args))
        else:
            rv = rhs
            k = rv["k"]
            if k in ("use", "cast", "repeat"):
                r = expr(body, rv["op"], None, seen)
            elif k in ("ref", "rawptr"):
                r = expr(body, rv["place"], None, seen)
            elif k == "binop":
                r = "%s(%s,%s)" % (rv["op"].replace("WithOverflow", ""), expr(body, rv["a"], None, seen), expr(body, rv["b"], None, seen))
                if rv["op"].endswith("WithOverflow"):
                    r += "\u27c2"
            elif k == "unop":
                r = "%s(%s)" % (rv["op"], expr(body, rv["a"], None, seen))
            elif k == "discr":
                r = "discr(%s)" % expr(body, rv["place"], None, seen)
            elif k == "agg":
                if rv["ak"] == "adt":
                    r = "%s::%s(%s)" % (rv["adt"].split("::")[-1], rv["variant"], ",".join(expr(body, a, None, seen) for a in rv["ops"]))
                elif rv["ak"] == "closure":
                    r = "closure(%s)" % ",".join(expr(body, a, None, seen) for a in rv["ops"])
                else:
                    r = "%s(%s)" % (rv["ak"], ",".join(expr(body, a, None, seen) for a in rv["ops"]))
            else:
                r = "?"
        if len(r) > 600:
            import hashlib
            r = r[:200] + "…#" + hashlib.sha1(r.encode()).hexdigest()[:8] + ")" * (r[:200].count("(") - r[:200].count(")"))
    memo[l] = r
    return r


def guards(body, bb):
    """Conditions that hold on every path to block bb: list of (polarity, expr_string, switch_bb).
    polarity: 'T'/'F' for bool switches; 'V<n>' / '!V<ns>' for discriminant switches."""
    out = []
    for i, bl in enumerate(body.blocks):
        t = bl["term"]
        if t["k"] != "switch" or i == bb:
            continue
        l = op_local(t["op"])
        # discriminant switch?
        dpl = None
        for s in reversed(bl["stmts"]):
            if s["k"] == "assign" and s["place"] == l and s["rv"]["k"] == "discr":
                dpl = s["rv"]["place"]
                dty = s["rv"].get("ty") or ""
                break
        succs = set(body.succ(i))
        if dpl is not None:
            e = expr(body, dpl)
            for v, tg in t["targets"]:
                cnt = sum(1 for v2, tg2 in t["targets"] if tg2 == tg) + (1 if t["otherwise"] == tg else 0)
                if cnt == 1 and body.edge_dominates((i, tg), bb) and bb in body.reachable(tg):
                    out.append(("V%d" % v, e, i))
            tg = t["otherwise"]
            if all(tg2 != tg for _, tg2 in t["targets"]) and body.edge_dominates((i, tg), bb) and bb in body.reachable(tg):
                listed = [v for v, _ in t["targets"]]
                nvar = _n_variants(body, dty)
                if nvar == 2 and len(listed) == 1 and listed[0] in (0, 1):
                    # two-variant type (Option, Result, ...): `not variant k` IS `variant 1-k` — same guard string whether the source
                    # says `if let Some(x) = .. else` or `match { Some(x) => .., None => .. }`
                    out.append(("V%d" % (1 - listed[0]), e, i))
                else:
                    out.append(("!V" + ",".join(str(v) for v in listed), e, i))
            continue
        if t["ty"] != "bool":
            e = expr(body, t["op"])
            for v, tg in t["targets"]:
                if body.edge_dominates((i, tg), bb) and bb in body.reachable(tg) and tg != t["otherwise"]:
                    out.append(("=%d" % v, e, i))
            continue
        f = None
        for v, tg in t["targets"]:
            if v == 0:
                f = tg
        tr = t["otherwise"]
        if f is None or f == tr:
            continue
        e = None
        if body.edge_dominates((i, tr), bb) and bb in body.reachable(tr):
            e = expr(body, t["op"])
            out.append(("T", e, i))
        elif body.edge_dominates((i, f), bb) and bb in body.reachable(f):
            e = expr(body, t["op"])
            out.append(("F", e, i))
    # normalise Not(...)
    norm = []
    for pol, e, i in out:
        while pol in ("T", "F") and e.startswith("Not(") and e.endswith(")"):
            e = e[4:-1]
            pol = "F" if pol == "T" else "T"
        norm.append((pol, e, i))
    return norm


def _n_variants(body, ty):
    base = (ty or "").split("<")[0]
    if base in ("std::option::Option", "std::result::Result", "std::ops::control_flow::ControlFlow"):
        return 2
    a = body.crate.adts.get(base) if hasattr(body.crate, "adts") else None
    if a and a.get("kind") == "enum":
        return len(a.get("variants", []))
    return None


def guard_strs(body, bb):
    return ["%s:%s" % (p, e) for p, e, _ in guards(body, bb)]


# ----------------------------------------------------------------------------- inlining of newly introduced helper functions

def _remap_place(p, lm):
    if isinstance(p, int):
        return lm(p)
    out = [lm(p[0])]
    for el in p[1:]:
        m = re.fullmatch(r"\[_(\d+)\]", el)
        out.append("[_%d]" % lm(int(m.group(1))) if m else el)
    return out


def _remap_op(o, lm, pm):
    if "cp" in o:
        return dict(o, cp=_remap_place(o["cp"], lm))
    if "mv" in o:
        return dict(o, mv=_remap_place(o["mv"], lm))
    if "promoted" in o:
        return dict(o, promoted=pm + o["promoted"])
    return o


def _remap_rv(rv, lm, pm):
    r = dict(rv)
    for k in ("op", "a", "b"):
        if k in r and isinstance(r[k], dict):
            r[k] = _remap_op(r[k], lm, pm)
    if "place" in r:
        r["place"] = _remap_place(r["place"], lm)
    if "ops" in r:
        r["ops"] = [_remap_op(o, lm, pm) for o in r["ops"]]
    return r


def inline_call(caller_j, bb, callee_j):
    """Splice callee's MIR into caller at the call terminating block bb (classic inlining: fresh locals, arguments assigned to
    the callee's parameter locals, `return` -> goto the call's target, _0 -> the call's destination)."""
    t = caller_j["blocks"][bb]["term"]
    base = len(caller_j["locals"])
    nb = len(caller_j["blocks"])
    pm = len(caller_j.get("promoted", []))
    dest = t["dest"]
    plain_dest = isinstance(dest, int) or (isinstance(dest, list) and len(dest) == 1)
    dl = dest if isinstance(dest, int) else dest[0]

    def lm(l):
        if l == 0 and plain_dest:
            return dl
        return base + l
    argc = callee_j["argc"]
    for i, (ty, nm) in enumerate(callee_j["locals"]):
        # parameters lose their name: they are single-definition copies of the caller's argument expressions
        caller_j["locals"].append([ty, None if 1 <= i <= argc else nm])
    caller_j.setdefault("promoted", []).extend(callee_j.get("promoted", []))
    sp = t.get("sp")
    pre = []
    for i, a in enumerate(t["args"]):
        if i < argc:
            pre.append({"k": "assign", "place": base + 1 + i, "rv": {"k": "use", "op": a}, "sp": sp})
    caller_j["blocks"][bb]["stmts"] = list(caller_j["blocks"][bb]["stmts"]) + pre
    caller_j["blocks"][bb]["term"] = {"k": "goto", "target": nb}
    ret_target = t["target"]
    for bl in callee_j["blocks"]:
        stmts = []
        for s in bl["stmts"]:
            if s["k"] == "assign":
                stmts.append(dict(s, place=_remap_place(s["place"], lm), rv=_remap_rv(s["rv"], lm, pm)))
            else:
                stmts.append(s)
        ct = bl["term"]
        k = ct["k"]
        nt = dict(ct)
        if k == "return":
            if ret_target is None:
                nt = {"k": "unreachable", "sp": ct.get("sp")}
            elif plain_dest:
                nt = {"k": "goto", "target": ret_target}
            else:
                stmts.append({"k": "assign", "place": dest, "rv": {"k": "use", "op": {"mv": base}}, "sp": sp})
                nt = {"k": "goto", "target": ret_target}
        else:
            for f in ("target", "unwind", "otherwise"):
                if isinstance(nt.get(f), int):
                    nt[f] = nb + nt[f]
            if k == "switch":
                nt["targets"] = [[v, nb + x] for v, x in ct["targets"]]
                nt["op"] = _remap_op(ct["op"], lm, pm)
            elif k == "call":
                nt["args"] = [_remap_op(a, lm, pm) for a in ct["args"]]
                nt["dest"] = _remap_place(ct["dest"], lm)
                if isinstance(nt.get("func"), dict):
                    nt["func"] = _remap_op(nt["func"], lm, pm)
            elif k == "drop":
                nt["place"] = _remap_place(ct["place"], lm)
            elif k == "assert":
                for f in ("cond", "a", "b"):
                    if isinstance(nt.get(f), dict):
                        nt[f] = _remap_op(nt[f], lm, pm)
        caller_j["blocks"].append({"cleanup": bl.get("cleanup", False), "stmts": stmts, "term": nt})


def inline_functions(fx, qnames):
    """Inline the named (small, private) functions into their callers — used by rules that are written against the inlined
    form so that the helper and its hand-inlined equivalent look the same."""
    return inline_new_helpers(fx, None, select=lambda b: b.q in qnames)


def inline_new_helpers(fx, known_fn_names, max_blocks=400, passes=3, select=None):
    """Functions whose name did not exist when the rules were written (audit/names.json `_defs`) are helpers some edit
    extracted: every call to one from the same crate is inlined into its caller, so the rules see the code where they were
    written to look for it.  Inlining preserves behaviour, so a verdict on the inlined body is a verdict on the program.
    Returns the list of (caller, callee) pairs inlined."""
    import copy
    done = []
    for cr in fx.crates.values():
        pick = select or (lambda b: b.d["name"] not in known_fn_names)
        new = {b.defi: b for b in cr.bodies if b.kind in ("Fn", "AssocFn") and pick(b) and len(b.blocks) <= max_blocks}
        if not new:
            continue
        for _ in range(passes):
            changed = False
            for b in cr.bodies:
                sites = [i for i, bl in enumerate(b.blocks) if bl["term"]["k"] == "call" and bl["term"].get("callee") in new
                         and bl["term"]["callee"] != b.defi and bl["term"].get("rk") == "item"]
                if not sites:
                    continue
                if not b.j.get("_inlined"):
                    b.j = copy.deepcopy(b.j)
                    b.j["_inlined"] = True
                for i in sites:
                    cal = new[b.j["blocks"][i]["term"]["callee"]]
                    inline_call(b.j, i, copy.deepcopy(cal.j))
                    for ch in cal.children:
                        if ch not in b.children:
                            b.children.append(ch)
                    done.append((b.q, cal.q))
                b.blocks = b.j["blocks"]
                b.locals = b.j["locals"]
                b._succ = b._pred = b._dom = b._calls = b._defsites = None
                b.__dict__.pop("_expr_memo", None)
                changed = True
            if not changed:
                break
    # a helper that is no longer referenced anywhere after inlining is dead duplicate code: its body is dropped, so that
    # whole-program inventories (panic sites, nondeterminism, hide classification) do not count its contents twice
    if done:
        inl = set(cq for _, cq in done)
        refs = set()
        for cr in fx.crates.values():
            for b in cr.bodies:
                for bl in b.blocks:
                    t = bl["term"]
                    if t["k"] == "call":
                        for key in ("callee", "decl"):
                            if t.get(key) is not None:
                                refs.add(cr.q[t[key]])
                        for i in t.get("fnitems", []):
                            refs.add(cr.q[i])
                        if isinstance(t.get("func"), dict) and "fn" in t["func"]:
                            refs.add(cr.q[t["func"]["fn"]])
                        for a in t["args"]:
                            if isinstance(a, dict) and "fn" in a:
                                refs.add(cr.q[a["fn"]])
                    for st in bl["stmts"]:
                        if st["k"] == "assign":
                            for o in rv_operands(st["rv"]):
                                if isinstance(o, dict) and "fn" in o:
                                    refs.add(cr.q[o["fn"]])
        for cr in fx.crates.values():
            dead = [b for b in cr.bodies if b.q in inl and b.q not in refs and b.kind in ("Fn", "AssocFn")]
            for b in dead:
                cr.bodies.remove(b)
                cr.by_def.pop(b.defi, None)
                if b in fx.by_q.get(b.q, []):
                    fx.by_q[b.q].remove(b)
    fx._cg = {}
    return done


def fn_sig(body):
    d = body.d
    mod = d["path"].rsplit("::", 1)[0] if d["container"] not in ("impl", "trait") else ""
    return "|".join([d["krate"], d["container"] or "", d.get("self_adt") or d.get("self_ty") or mod, d.get("trait") or ""] +
                    [re.sub(r"'\w+", "'_", body.locals[i][0]) for i in range(0, body.argc + 1)])


def undo_fn_renames(fx, known_sigs):
    """known_sigs: {function name: [signature,...]} as of when the rules were written (audit/names.json `_sigs`).  A name that
    vanished while exactly one new name with the same container, parameter and return types appeared is a rename: the
    definition gets its old name back on the loaded facts (names are labels; the rules' patterns name the old one).
    Returns [(old, new)]."""
    out = []
    for cr in fx.crates.values():
        fbodies = [b for b in cr.bodies if b.kind in ("Fn", "AssocFn")]
        cur = {}
        for b in fbodies:
            cur.setdefault(b.d["name"], []).append(b)
        defined = set(d["name"] for d in cr.defs if d.get("kind") in ("Fn", "AssocFn"))
        vanished = [n for n, sg in known_sigs.items() if n not in defined and any(s.startswith(cr.name + "|") for s in sg)]
        fresh = [n for n in cur if n not in known_sigs]
        used = set()
        for v in sorted(vanished):
            sgs = [s for s in known_sigs[v] if s.startswith(cr.name + "|")]
            if len(sgs) != 1:
                continue
            cands = [n for n in fresh if n not in used and len(cur[n]) == 1 and fn_sig(cur[n][0]) == sgs[0]]
            if len(cands) == 1:
                b = cur[cands[0]][0]
                used.add(cands[0])
                b.d["path"] = b.d["path"].rsplit("::", 1)[0] + "::" + v
                b.d["name"] = v
                out.append((v, cands[0]))
        if used:
            cr.q = [None] * len(cr.defs)
            for i in range(len(cr.defs)):
                cr._qname(i)
            for b in cr.bodies:
                b.q = cr.q[b.defi]
                b._calls = None
                b._defsites = None
                b.__dict__.pop("_expr_memo", None)
    if out:
        fx.by_q = defaultdict(list)
        for c in fx.crates.values():
            for b in c.bodies:
                fx.by_q[b.q].append(b)
        fx._cg = {}
        fx._impl_index = None
    return out


def undo_field_renames(fx, known_fields):
    """known_fields: {struct path: {field: type}} as of when the rules were written (audit/names.json `_fields`).  A struct
    field that vanished while exactly one new field of the same type appeared in the same struct is a rename: place
    projections, aggregates and the struct's field list get the old name back.  Returns [(struct, old, new)]."""
    ren = {}
    for cr in fx.crates.values():
        for path, a in cr.adts.items():
            kf = known_fields.get(path)
            if not kf or a.get("kind") != "struct" or len(a.get("variants", [])) != 1:
                continue
            flds = a["variants"][0]["fields"]
            cur = {f[0]: f[1] for f in flds}
            vanished = [f for f in kf if f not in cur]
            fresh = [f for f in cur if f not in kf]
            used = set()
            for v in sorted(vanished):
                cands = [f for f in fresh if f not in used and cur[f] == kf[v]]
                if len(cands) == 1:
                    used.add(cands[0])
                    ren[(path, cands[0])] = v
                    for f in flds:
                        if f[0] == cands[0]:
                            f[0] = v
    if not ren:
        return []
    proj = {".%s@%s" % (new, path): ".%s@%s" % (old, path) for (path, new), old in ren.items()}
    byadt = {}
    for (path, new), old in ren.items():
        byadt.setdefault(path, {})[new] = old

    def walk(x):
        if isinstance(x, list):
            for i, e in enumerate(x):
                if isinstance(e, str):
                    if e in proj:
                        x[i] = proj[e]
                elif isinstance(e, (list, dict)):
                    walk(e)
        elif isinstance(x, dict):
            if x.get("k") == "agg" and x.get("adt") in byadt and isinstance(x.get("fields"), list):
                x["fields"] = [byadt[x["adt"]].get(f, f) for f in x["fields"]]
            for v in x.values():
                if isinstance(v, (list, dict)):
                    walk(v)
    for cr in fx.crates.values():
        for b in cr.bodies:
            walk(b.j["blocks"])
            walk(b.j.get("promoted", []))
            walk(b.j.get("upvars", []))
            b._defsites = None
            b.__dict__.pop("_expr_memo", None)
    return [(p, old, new) for (p, new), old in ren.items()]


def forward_expression_temps(fx):
    """`x = match e { A => a, B => b }` (and `x = if c { a } else { b }`) compiles to an unnamed temporary assigned in every arm
    and moved into x at the join; `match e { A => x = a, B => x = b }` assigns x in the arms.  Both are normalised to the
    second form: when an unnamed temporary has several whole-value definitions, is used exactly once — by `P = move T` — and
    every definition reaches that statement through empty goto/drop blocks only, each `T = v` becomes `P = v` and the
    move is removed.  (Nothing can observe P between an arm's assignment and the join, so behaviour is unchanged.)
    Returns the number of temporaries forwarded."""
    n = 0
    for cr in fx.crates.values():
        for b in cr.bodies:
            blocks = b.blocks
            uses = defaultdict(int)
            defs = defaultdict(list)
            moves = {}

            def count_op(o):
                if isinstance(o, dict) and ("mv" in o or "cp" in o):
                    p = o.get("mv", o.get("cp"))
                    uses[p if isinstance(p, int) else p[0]] += 1
                    if isinstance(p, list):
                        for el in p[1:]:
                            m = re.fullmatch(r"\[_(\d+)\]", el)
                            if m:
                                uses[int(m.group(1))] += 1

            def count_place_read(p):
                uses[p if isinstance(p, int) else p[0]] += 1
            for bi, bl in enumerate(blocks):
                for si, st in enumerate(bl["stmts"]):
                    if st["k"] != "assign":
                        continue
                    rv = st["rv"]
                    for o in rv_operands(rv):
                        count_op(o)
                    if "place" in rv:
                        count_place_read(rv["place"])
                    pl = st["place"]
                    if isinstance(pl, int):
                        defs[pl].append((bi, si))
                    else:
                        if len(pl) > 1:
                            uses[pl[0]] += 1      # writing through a projection reads the base
                        else:
                            defs[pl[0]].append((bi, si))
                    if rv["k"] == "use" and isinstance(rv["op"], dict) and "mv" in rv["op"] and isinstance(rv["op"]["mv"], int):
                        moves.setdefault(rv["op"]["mv"], []).append((bi, si))
                t = bl["term"]
                k = t["k"]
                if k == "call":
                    for a in t["args"]:
                        count_op(a)
                    if isinstance(t.get("func"), dict):
                        count_op(t["func"])
                    d = t["dest"]
                    if isinstance(d, int):
                        defs[d].append((bi, "term"))
                    else:
                        uses[d[0]] += 1
                elif k == "switch":
                    count_op(t["op"])
                elif k == "drop":
                    pass
                elif k == "assert":
                    for f in ("cond", "a", "b"):
                        if isinstance(t.get(f), dict):
                            count_op(t[f])
            changed = False
            for T, ds in defs.items():
                if len(ds) < 2 or b.locals[T][1] or T <= b.argc or uses[T] != 1 or len(moves.get(T, [])) != 1:
                    continue
                if any(si == "term" for _, si in ds):
                    continue
                jb, js = moves[T][0]
                P = blocks[jb]["stmts"][js]["place"]
                # the join statement must be the first statement of its block, reached from every definition through empty blocks
                if js != 0:
                    continue
                ok = True
                for (db, dsi) in ds:
                    if dsi != len(blocks[db]["stmts"]) - 1:
                        ok = False
                        break
                    cur, steps = db, 0
                    while ok:
                        t = blocks[cur]["term"]
                        nxt = t.get("target") if t["k"] in ("goto", "drop") else None
                        if nxt is None:
                            ok = False
                        elif nxt == jb:
                            break
                        elif blocks[nxt]["stmts"] or steps > 6:
                            ok = False
                        else:
                            cur = nxt
                            steps += 1
                    if not ok:
                        break
                if not ok:
                    continue
                # a drop of T on the way would now drop nothing we track; drops of P's base in those blocks would be observable: refuse
                for (db, dsi) in ds:
                    blocks[db]["stmts"][dsi] = dict(blocks[db]["stmts"][dsi], place=P)
                blocks[jb]["stmts"] = blocks[jb]["stmts"][1:]
                # indices of later statements in the join block shifted: recompute lazily
                changed = True
                n += 1
                break_outer = True
                # statement indices changed: stop after one rewrite per pass of this body and redo
                break
            if changed:
                b._defsites = None
                b._calls = None
                b.__dict__.pop("_expr_memo", None)
    return n
