"""Interprocedural symbolic string structure (for C17 / C19 taint with quoting contexts).

tree(body, operand) builds, from MIR + expanded-AST format_args facts, a term describing how a
string value is assembled:

  ('const', text)                      literal
  ('src', name, where)                 descriptive-text source (Arg::get_help, Command::get_about, ...)
  ('name', callee, where)              other command-derived text (names, ids ...): data, but not in C17's scope
  ('fmt', [item...], where)            format!/write! result; item = literal str | node
  ('repl', pat, rep, node, where)      str::replace(pat, rep) applied to node (pat/rep constants, else None)
  ('cat', [node...])                   accumulator / concatenation, order not tracked
  ('iter', node)                       each element of an iterator / collection
  ('join', sep_node, node)
  ('alt', [node...])                   one of
  ('opaque', callee, [node...], where) call the analysis does not model: hazards of its inputs pass through
  ('param', n) ('rec',) ('unknown', why)
"""
import re, sys
from facts import *      # noqa
sys.setrecursionlimit(20000)

PASS = re.compile(
    r"(ToString>?::to_string$|ToOwned>?::to_owned$|::to_owned$|String as std::convert::From<[^>]*>>::from$|::into$|::from$|"
    r"String::as_str$|Deref>?::deref$|DerefMut>?::deref_mut$|AsRef<[^>]*>>?::as_ref$|::as_ref$|Borrow<[^>]*>>?::borrow$|Clone>?::clone$|"
    r"Option::unwrap$|Option::expect$|Option::unwrap_or_default$|Option::cloned$|Option::copied$|Option::as_ref$|Option::as_deref$|"
    r"Result::unwrap$|Result::expect$|Result::unwrap_or_default$|hint::must_use$|String::as_mut_str$|String::into_boxed_str$|"
    r"Cow<[^>]*>::into_owned$|Cow::into_owned$|::to_string_lossy$|::trim$|::trim_end$|::trim_start$|str::to_lowercase$|str::to_uppercase$|"
    r"IntoIterator>?::into_iter$|::iter$|Iterator>?::collect$|Iterator::collect$|Iterator::filter$|Iterator::rev$|Iterator::skip$|Iterator::take$|"
    r"Iterator::peekable$|Iterator::cloned$|Iterator::copied$|Iterator::enumerate$|Vec::as_slice$|Iterator::next$|Iterator::last$|str::lines$|"
    r"Option::unwrap_unchecked$|std::borrow::Cow::<[^>]*>::as_ref$|Iterator::flatten$|Option::into_iter$|Iterator::find$|"
    r"StyledStr::to_string$|^str::repeat$|std::fmt::Display|Option::iter$|\[T\]::to_vec$|\[T\]::first$|\[T\]::last$|Index(<[^>]*>)?( for [^>]*)?>?::index$)")
ALT2 = re.compile(r"(Option::unwrap_or$|Option::or$|Iterator::chain$|Option::map_or$)")
MAPLIKE = re.compile(r"(Iterator::map$|Iterator::filter_map$|Iterator::flat_map$|Option::map$|Option::and_then$|Iterator::find_map$|Option::unwrap_or_else$|Option::map_or_else$|Option::or_else$|Iterator::fold$)")
PUSHERS = re.compile(r"(String::push_str$|String::push$|String::insert_str$|fmt::Write>?::write_fmt$|fmt::Write>?::write_str$|Vec::push$|Extend<[^>]*>>?::extend$|Vec::extend_from_slice$|String::extend$|io::Write>?::write_fmt$|io::Write>?::write_all$|Write::write_fmt$|Write::write_all$|Write::write_str$)")
FMT_ARGS_NEW = re.compile(r"std::fmt::Arguments::(new|new_const|new_v1|new_v1_formatted|from_str|from_str_nonconst)$")


class StrFlow:
    def __init__(self, fx, source_rx, name_rx=None, inline_crates=(), max_depth=7, mark_rx=None, field_adts=None):
        self.fx = fx
        self.source_rx = re.compile(source_rx)
        self.name_rx = re.compile(name_rx) if name_rx else None
        self.inline_crates = set(inline_crates)
        self.max_depth = max_depth
        self.mark_rx = re.compile(mark_rx) if mark_rx else None
        self.field_adts = re.compile(field_adts) if field_adts else None
        self._field_writes = None
        self.memo = {}
        self._keep = []   # keep env dicts alive so that id(env) stays unique
        self.fmt_index = {}
        for c in fx.crates.values():
            for f in c.fmt:
                self.fmt_index[(c.name, tuple(f["span"][:5]))] = f
        self.unknown_calls = set()
        self.stats = {"trees": 0, "fmt_linked": 0, "fmt_unlinked": 0, "inlined": 0}

    # ---- helpers
    def where(self, body, sp):
        return "%s in %s" % (sp_str(sp), body.q)

    def tree(self, body, o, env=None, depth=0, stack=()):
        """o: operand dict or place."""
        if isinstance(o, dict):
            if "int" in o:
                if o.get("ty") == "char":
                    return ("const", chr(o["int"]))
                return ("const", str(o["int"]))
            s = const_str(o)
            if s is not None:
                return ("const", s)
            if "fn" in o or "c" in o:
                if "promoted" in o:
                    return self.promoted(body, o["promoted"])
                return ("unknown", "const:" + o.get("c", ""))
            p = op_place(o)
        else:
            p = o
        if self.field_adts is not None:
            for el in pl_proj(p):
                if isinstance(el, str) and el.startswith(".") and "@" in el:
                    fname, adt = el[1:].split("@", 1)
                    if self.field_adts.search(adt):
                        key = ("field", adt, fname)
                        if key in stack:
                            return ("rec",)
                        ws = self.field_writes().get((adt, fname), [])
                        alts = [self.tree(wb, wo, {}, depth, stack + (key,)) for wb, wo in ws]
                        if not alts:
                            return ("unknown", "no writes of %s.%s" % (adt, fname))
                        return ("alt", alts) if len(alts) > 1 else alts[0]
                    break
        return self.local_tree(body, pl_local(p), pl_proj(p), env or {}, depth, stack)

    def field_writes(self):
        """(adt, field) -> [(body, operand)] over every aggregate construction and field assignment."""
        if self._field_writes is None:
            fw = {}
            for c in self.fx.crates.values():
                if c.name not in self.inline_crates:
                    continue
                for b in c.bodies:
                    for i, j, s in b.stmts():
                        if s["k"] != "assign":
                            continue
                        rv = s["rv"]
                        if rv["k"] == "agg" and rv.get("ak") == "adt" and self.field_adts.search(rv["adt"]):
                            for fn_, o in zip(rv["fields"], rv["ops"]):
                                fw.setdefault((rv["adt"], fn_), []).append((b, o))
                        pl = s["place"]
                        if not isinstance(pl, int):
                            for el in pl[1:]:
                                if isinstance(el, str) and el.startswith(".") and "@" in el:
                                    fname, adt = el[1:].split("@", 1)
                                    if self.field_adts.search(adt) and rv["k"] in ("use", "cast", "ref"):
                                        fw.setdefault((adt, fname), []).append((b, rv.get("op") or rv.get("place")))
                                    break
            self._field_writes = fw
        return self._field_writes

    def promoted(self, body, pi):
        pb = body.j.get("promoted", [])
        if pi < len(pb):
            for bl in pb[pi]:
                for s in bl["stmts"]:
                    if s["k"] == "assign" and s["rv"]["k"] == "use":
                        cs = const_str(s["rv"]["op"])
                        if cs is not None:
                            return ("const", cs)
        return ("unknown", "promoted")

    def local_tree(self, body, l, proj, env, depth, stack):
        key = (id(body), l, id(env) if env else 0)
        if env:
            self._keep.append(env)
        if key in self.memo:
            return self.memo[key]
        if (id(body), l) in stack or len(stack) > 400:
            return ("rec",)
        stack = stack + ((id(body), l),)
        self.stats["trees"] += 1
        alts = []
        if 1 <= l <= body.argc:
            if l in env:
                alts.append(env[l])
            elif body.kind == "Closure" and l == 1 and "closure_env" in env:
                alts.append(("closure_env",))
            else:
                alts.append(("param", l))
        # closure captured variable: (*_1).N or _1.N
        if body.kind == "Closure" and l == 1 and "closure_ops" in env:
            idx = None
            for el in proj:
                m = re.match(r"^\.(\d+)", el)
                if m:
                    idx = int(m.group(1))
                    break
            ops, pbody, penv = env["closure_ops"]
            if idx is not None and idx < len(ops):
                t = self.tree(pbody, ops[idx], penv, depth, stack)
                self.memo_put(key, t)
                return t
        pushes = []
        for (bb, idx, lhs, rhs) in body.def_sites(l):
            if isinstance(rhs, Call):
                alts.append(self.call_tree(body, rhs, env, depth, stack))
            else:
                alts.append(self.rv_tree(body, rhs, env, depth, stack))
        # accumulator: mutated through &mut by push_str / write!
        for c in body.calls():
            if not PUSHERS.search(c.callee_q or c.decl_q or "") or not c.args:
                continue
            r = op_local(c.args[0])
            if r is None:
                continue
            if l in ref_targets(body, r):
                if re.search(r"write_fmt$", c.callee_q or c.decl_q or ""):
                    pushes.append(self.fmt_tree(body, c, c.args[1], env, depth, stack))
                elif len(c.args) >= 2:
                    pushes.append(self.tree(body, c.args[-1], env, depth, stack))
        alts = [a for a in alts if a is not None]
        if pushes:
            t = ("cat", alts + pushes)
        elif len(alts) == 1:
            t = alts[0]
        elif not alts:
            t = ("unknown", "undef _%d in %s" % (l, body.q))
        else:
            t = ("alt", alts)
        self.memo_put(key, t)
        return t

    def memo_put(self, key, t):
        self.memo[key] = t

    def rv_tree(self, body, rv, env, depth, stack):
        k = rv["k"]
        if k in ("use", "cast", "repeat"):
            return self.tree(body, rv["op"], env, depth, stack)
        if k in ("ref", "rawptr"):
            return self.tree(body, rv["place"], env, depth, stack)
        if k == "agg":
            if rv["ak"] in ("tuple", "array", "adt"):
                items = [self.tree(body, o, env, depth, stack) for o in rv["ops"]]
                items = [i for i in items if i[0] != "const" or i[1] != ""]
                if not items:
                    return ("const", "")
                return ("alt", items) if len(items) > 1 else items[0]
            if rv["ak"] == "closure":
                return ("closure", body.crate.q[rv["def"]], rv["ops"], body, env)
            return ("unknown", "agg")
        if k in ("binop", "unop", "discr"):
            return ("const", "0")
        return ("unknown", k)

    def fmt_tree(self, body, call, args_operand, env, depth, stack):
        """Tree of a format!/write! given the operand holding fmt::Arguments."""
        where = self.where(body, call.sp)
        node = self.fmt_index.get((body.crate.name, tuple(call.sp[:5])))
        # find the Arguments::new call
        al = op_local(args_operand)
        anew = None
        seen = set()
        work = [al]
        while work:
            x = work.pop()
            if x in seen or x is None:
                continue
            seen.add(x)
            for (bb, idx, lhs, rhs) in body.def_sites(x):
                if isinstance(rhs, Call):
                    if FMT_ARGS_NEW.search(rhs.callee_q or ""):
                        anew = rhs
                else:
                    for p in rv_places(rhs):
                        work.append(pl_local(p))
        if anew is None:
            self.stats["fmt_unlinked"] += 1
            return ("unknown", "format-arguments not found at " + where)
        if node is None:
            node = self.fmt_index.get((body.crate.name, tuple(anew.sp[:5])))
        if re.search(r"from_str(_nonconst)?$", anew.callee_q):
            s = const_str(anew.args[0])
            self.stats["fmt_linked"] += 1
            return ("fmt", [s if s is not None else ""], where)
        if node is None:
            self.stats["fmt_unlinked"] += 1
            return ("unknown", "no AST format_args node at " + where)
        # the `args` tuple: follow array -> new_display(args.N) -> tuple
        tup_ops = None
        arr = op_local(anew.args[1]) if len(anew.args) > 1 else None
        seen = set()
        work = [arr]
        while work and tup_ops is None:
            x = work.pop()
            if x in seen or x is None:
                continue
            seen.add(x)
            for (bb, idx, lhs, rhs) in body.def_sites(x):
                if isinstance(rhs, Call):
                    if re.search(r"fmt::rt::Argument::new_", rhs.callee_q or "") and rhs.args:
                        work.append(op_local(rhs.args[0]))
                    continue
                if rhs["k"] == "agg" and rhs["ak"] == "tuple":
                    tup_ops = rhs["ops"]
                    break
                for p in rv_places(rhs):
                    work.append(pl_local(p))
        items = []
        for piece in node["template"]:
            if isinstance(piece, str):
                items.append(piece)
            else:
                n = piece["arg"]
                if tup_ops is not None and 0 <= n < len(tup_ops):
                    items.append(self.tree(body, tup_ops[n], env, depth, stack))
                else:
                    items.append(("unknown", "format argument %d not linked at %s" % (n, where)))
        self.stats["fmt_linked"] += 1
        return ("fmt", items, where)

    def closure_ret(self, body, cl, elem, depth, stack, extra_args=()):
        """Return tree of a closure value node `cl` applied to element tree `elem`."""
        if cl is None or cl[0] != "closure":
            if cl is not None and cl[0] == "fnitem":
                if self.source_rx.search(cl[1]):
                    return ("src", cl[1], "fn item")
                if self.name_rx and self.name_rx.search(cl[1]):
                    return ("name", cl[1], "fn item")
                r = self.inline_q(cl[1], [elem], depth, stack)
                if r is not None:
                    return r
                return ("opaque", cl[1], [elem], "")
            return ("opaque", "closure?", [elem], "")
        _, q, ops, pbody, penv = cl
        bodies = self.fx.by_q.get(q, [])
        if len(bodies) != 1:
            return ("opaque", q, [elem], "")
        cb = bodies[0]
        env = {"closure_ops": (ops, pbody, penv), "closure_env": True}
        # closure params: _1 = env, _2.. = args
        env[2] = elem
        for i, a in enumerate(extra_args):
            env[3 + i] = a
        return self.local_tree(cb, 0, [], env, depth + 1, stack)

    def inline_q(self, q, arg_trees, depth, stack):
        bodies = self.fx.by_q.get(q, [])
        if len(bodies) != 1:
            return None
        cb = bodies[0]
        if cb.crate.name not in self.inline_crates or depth >= self.max_depth:
            return None
        env = {i + 1: t for i, t in enumerate(arg_trees)}
        self.stats["inlined"] += 1
        return self.local_tree(cb, 0, [], env, depth + 1, stack)

    def call_tree(self, body, c, env, depth, stack):
        q = c.callee_q or c.decl_q or ""
        where = self.where(body, c.sp)
        if self.source_rx.search(q):
            return ("src", q, where)
        if self.name_rx and self.name_rx.search(q):
            return ("name", q, where)
        if re.search(r"box_assume_init_into_vec_unsafe$|slice::<impl \[T\]>::into_vec$|\[T\]::into_vec$", q) and c.args:
            # vec![a, b, c]: Box::new_uninit(); *ptr = [a, b, c]; box_assume_init_into_vec_unsafe(box)
            al = {op_local(c.args[0])}
            # backwards: the box may have been moved into the argument temp
            work = [op_local(c.args[0])]
            while work:
                x = work.pop()
                for (bb_, idx_, lhs_, rhs_) in body.def_sites(x):
                    if not isinstance(rhs_, Call) and rhs_["k"] in ("use", "cast") and op_place(rhs_["op"]) is not None:
                        y = op_local(rhs_["op"])
                        if y not in al:
                            al.add(y)
                            work.append(y)
            changed = True
            while changed:
                changed = False
                for i, j, st in body.stmts():
                    if st["k"] == "assign" and isinstance(st["place"], int) and st["place"] not in al:
                        if any(pl_local(pp) in al for pp in rv_places(st["rv"])) and st["rv"]["k"] in ("use", "cast", "ref", "rawptr"):
                            al.add(st["place"])
                            changed = True
            items = []
            for i, j, st in body.stmts():
                if st["k"] == "assign" and not isinstance(st["place"], int) and pl_local(st["place"]) in al and st["rv"]["k"] == "agg" and st["rv"]["ak"] == "array":
                    items.extend(self.tree(body, o, env, depth, stack) for o in st["rv"]["ops"])
            if items:
                return ("iter", ("alt", items) if len(items) > 1 else items[0])
        if self.mark_rx and self.mark_rx.search(q) and c.args:
            return ("mark", q, self.tree(body, c.args[0], env, depth, stack), where)
        if re.search(r"^str::replace$|^str::replacen$", q):
            pat = c.args[1]
            rep = c.args[2]
            ps = const_str(pat) if "int" not in pat else (chr(pat["int"]) if pat.get("ty") == "char" else None)
            rs = const_str(rep) if "int" not in rep else (chr(rep["int"]) if rep.get("ty") == "char" else None)
            if ps is None and op_place(pat) is not None:
                t = self.tree(body, pat, env, depth, stack)
                ps = t[1] if t[0] == "const" else None
            if rs is None and op_place(rep) is not None:
                t = self.tree(body, rep, env, depth, stack)
                rs = t[1] if t[0] == "const" else None
            return ("repl", ps, rs, self.tree(body, c.args[0], env, depth, stack), where)
        if re.search(r"std::fmt::format$|fmt::format::format_inner$", q):
            return self.fmt_tree(body, c, c.args[0], env, depth, stack)
        if re.search(r"std::string::String::new$|String::with_capacity$|Vec::new$|Vec::with_capacity$|Default>?::default$", q):
            return ("const", "")
        if re.search(r"\[V\]::join$|::join$|Join<[^>]*>>::join$|::concat$", q) and c.args:
            sep = self.tree(body, c.args[1], env, depth, stack) if len(c.args) > 1 else ("const", "")
            return ("join", sep, self.tree(body, c.args[0], env, depth, stack))
        if MAPLIKE.search(q) and len(c.args) >= 2:
            base = self.tree(body, c.args[0], env, depth, stack)
            cl = self.tree(body, c.args[-1], env, depth, stack)
            if cl and cl[0] == "unknown" and c.fnitems:
                cl = ("fnitem", c.fnitems[-1])
            r = self.closure_ret(body, cl, ("iter", base) if "Iterator" in q else base, depth, stack)
            if re.search(r"Option::(unwrap_or_else|map_or_else|or_else)$", q):
                return ("alt", [base, r])
            if re.search(r"fold$", q):
                return ("cat", [base, r])
            return ("iter", r) if "Iterator" in q else r
        if re.search(r"ops::arith::Add(<[^>]*>)?>?::add$|AddAssign", q) and len(c.args) == 2:
            return ("cat", [self.tree(body, a, env, depth, stack) for a in c.args])
        if ALT2.search(q) and len(c.args) >= 2:
            return ("alt", [self.tree(body, a, env, depth, stack) for a in c.args[:2]])
        if PASS.search(q) and c.args:
            return self.tree(body, c.args[0], env, depth, stack)
        # workspace callee: inline its return value
        if c.rk == "item" and c.callee_q:
            r = self.inline_q(c.callee_q, [self.tree(body, a, env, depth, stack) for a in c.args], depth, stack)
            if r is not None:
                return r
        self.unknown_calls.add(q)
        return ("opaque", q, [self.tree(body, a, env, depth, stack) for a in c.args], where)


def ref_targets(body, l, depth=0, seen=None):
    """Locals that reference-temp `l` may point to (through &mut / reborrows / deref_mut)."""
    if seen is None:
        seen = set()
    if l in seen or l is None or depth > 8:
        return set()
    seen.add(l)
    out = {l}
    for (bb, idx, lhs, rhs) in body.def_sites(l):
        if isinstance(rhs, Call):
            if rhs.is_(r"::deref_mut$", r"::as_mut$", r"::borrow_mut$", r"::deref$") and rhs.args:
                out |= ref_targets(body, op_local(rhs.args[0]), depth + 1, seen)
            continue
        if rhs["k"] in ("ref", "rawptr"):
            out |= ref_targets(body, pl_local(rhs["place"]), depth + 1, seen)
        elif rhs["k"] in ("use", "cast") and op_place(rhs["op"]) is not None:
            out |= ref_targets(body, op_local(rhs["op"]), depth + 1, seen)
    return out


def show(t, d=0, maxd=12):
    """Debug printer."""
    pad = "  " * d
    if d > maxd:
        return pad + "..."
    k = t[0]
    if k == "const":
        return pad + "const %r" % t[1]
    if k in ("src", "name"):
        return pad + "%s %s @%s" % (k, t[1].split("::")[-1], t[2])
    if k == "fmt":
        return pad + "fmt @%s\n" % t[2] + "\n".join((pad + "  lit %r" % i) if isinstance(i, str) else show(i, d + 1, maxd) for i in t[1])
    if k == "repl":
        return pad + "repl %r -> %r\n%s" % (t[1], t[2], show(t[3], d + 1, maxd))
    if k == "mark":
        return pad + "mark %s\n%s" % (t[1].split("::")[-1], show(t[2], d + 1, maxd))
    if k in ("cat", "alt"):
        return pad + k + "\n" + "\n".join(show(i, d + 1, maxd) for i in t[1])
    if k == "iter":
        return pad + "iter\n" + show(t[1], d + 1, maxd)
    if k == "join":
        return pad + "join\n" + show(t[1], d + 1, maxd) + "\n" + show(t[2], d + 1, maxd)
    if k == "opaque":
        return pad + "opaque %s\n" % t[1] + "\n".join(show(i, d + 1, maxd) for i in t[2])
    if k == "closure":
        return pad + "closure " + t[1]
    return pad + repr(t[:2])


def has_src(t, _seen=None):
    if _seen is None:
        _seen = set()
    if id(t) in _seen:
        return False
    _seen.add(id(t))
    k = t[0]
    if k == "src":
        return True
    if k == "fmt":
        return any(has_src(i, _seen) for i in t[1] if not isinstance(i, str))
    if k == "repl":
        return has_src(t[3], _seen)
    if k == "mark":
        return has_src(t[2], _seen)
    if k in ("cat", "alt"):
        return any(has_src(i, _seen) for i in t[1])
    if k == "iter":
        return has_src(t[1], _seen)
    if k == "join":
        return has_src(t[1], _seen) or has_src(t[2], _seen)
    if k == "opaque":
        return any(has_src(i, _seen) for i in t[2])
    return False
