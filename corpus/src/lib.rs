//! E3 corpus: derive inputs spanning the type-shape x attribute matrix of property C15.
//! Compiled (never run) under the clapfacts driver; the expanded, type-checked impls that
//! clap_derive generates for these types are the facts R15.1 is checked on.
#![allow(dead_code)]
use clap::{ArgAction, Args, Parser, Subcommand, ValueEnum};

#[derive(Parser, Debug)]
pub struct Opts {
    #[arg(long)]
    pub flag: bool,
    #[arg(long)]
    pub req: String,
    #[arg(long)]
    pub opt: Option<String>,
    #[arg(long)]
    pub optopt: Option<Option<String>>,
    #[arg(long)]
    pub vec: Vec<String>,
    #[arg(long)]
    pub optvec: Option<Vec<String>>,
    #[arg(long, action = ArgAction::Count)]
    pub count: u8,
    #[arg(short, long, default_value_t = 3)]
    pub num: u32,
    #[arg(long, value_enum)]
    pub mode: Option<Mode>,
    #[command(flatten)]
    pub flat: Flat,
    #[command(subcommand)]
    pub cmd: Option<Cmd>,
}

/// a plain `T` field stays required whatever *conditional* default it carries (only default_value / default_value_os /
/// default_value_t make it optional)
#[derive(Parser, Debug)]
pub struct Cond {
    #[arg(long)]
    pub staging: bool,
    #[arg(long, default_value_if("staging", "true", "stage.example"))]
    pub host: String,
}

#[derive(Parser, Debug)]
pub struct Pos {
    pub first: String,
    pub second: Option<String>,
    pub rest: Vec<String>,
}

#[derive(Parser, Debug)]
pub struct ReqSub {
    #[arg(long)]
    pub verbose: bool,
    #[command(subcommand)]
    pub cmd: Cmd,
}

#[derive(Parser, Debug)]
pub struct OptSub {
    #[arg(long)]
    pub verbose: bool,
    #[command(subcommand)]
    pub cmd: Option<Plain>,
}

#[derive(Subcommand, Debug)]
pub enum Plain {
    One,
    Two {
        #[arg(long)]
        depth: Option<u8>,
    },
}

/// nested subcommand enum (`remote add ..`) next to a flattened enum: `has_subcommand` must know "remote" by
/// name and delegate only for the flattened variant.
#[derive(Subcommand, Debug)]
pub enum Top {
    #[command(subcommand)]
    Remote(RemoteCmd),
    Status,
    #[command(flatten)]
    More(Plain),
}

#[derive(Subcommand, Debug)]
pub enum RemoteCmd {
    Add { name: String },
    Prune,
}

#[derive(Parser, Debug)]
pub struct TopCli {
    #[command(subcommand)]
    pub cmd: Option<Top>,
}

#[derive(Args, Debug)]
pub struct Flat {
    #[arg(long)]
    pub inner: Option<u16>,
    #[arg(long)]
    pub inner_flag: bool,
}

#[derive(Subcommand, Debug)]
pub enum Cmd {
    Add {
        #[arg(long)]
        name: String,
        files: Vec<String>,
    },
    Remove(RemoveArgs),
    Unit,
    #[command(external_subcommand)]
    External(Vec<String>),
}

#[derive(Args, Debug)]
pub struct RemoveArgs {
    #[arg(long)]
    pub force: bool,
    #[arg(long)]
    pub level: Option<i8>,
}

#[derive(ValueEnum, Clone, Debug, PartialEq)]
pub enum Mode {
    Fast,
    #[value(alias = "s")]
    Slow,
    #[value(skip)]
    Hidden,
}
