"""C17 — descriptive text can never change the structure of a generated script."""
import re
from rulekit import *
import strflow, shellq

EXPLANATION = (
    "Non-interference of descriptive text with script token structure, decided statically for all texts: "
    "(R17.1) every place where a generator (fish, zsh, powershell, elvish, nushell) appends to its output is a root; the "
    "symbolic structure of the appended string is rebuilt interprocedurally from MIR + expanded format_args nodes "
    "(literals, format placeholders, str::replace chains, joins, iterator maps, inlined helper functions and closures). "
    "(R17.2) For every descriptive-text source leaf (Arg::get_help/get_long_help, Command::get_about/.., "
    "PossibleValue::get_help) the shell's quoting automaton is run over the surrounding literals to find the lexer state "
    "at the leaf, and the chain of single-character replaces applied to it — a string homomorphism — is checked exactly: "
    "the set of lexer states reachable by images of arbitrary characters must be the start state only (lib/shellq.py). "
    "Text in a bare context, an unmodelled transform, or an inadequate/ill-ordered escape is a violation naming the source "
    "site and a witness character. bash must reach no descriptive-text source at all (call-graph who-may-call = 0, with a "
    "positive control). Sibling cross-check: instance floors per generator. NOT decided: second-level parsers inside a quoted "
    "word (zsh _arguments spec syntax), behaviour of real shells beyond the tabulated quoting grammar."
    ' R17.3: no cutting/editing operation (truncate, pop, slicing, take/nth ...) inside an escaping helper or on an escaped string.'
    " R17.A accessor layer (lib/accessors.py): for the is_*_set / get_* accessors this property's rules name — the bool builder sets and unsets one flag on the right edges and the predicate reads that same flag; builder scope (global/local) as in audit/setting_scope.tsv; no two predicates/builders share a flag; setting/unset_setting/global_setting/is_set forward to the right flag word, the flag word is |=bit / &=!bit / &bit!=0 with bit = 1<<discriminant, _propagate_subcommand hands g_settings to the child's settings and g_settings; plain field getters return their field."
)
TRUSTED = ["rustc MIR + expanded AST", "clapfacts", "lib/strflow.py tree builder", "lib/shellq.py quoting grammars of fish/zsh/elvish/PowerShell/nushell",
           "std str::replace semantics (single-char pattern = homomorphism)"]
ASSUMPTIONS = ["StyledStr::to_string / Display yields the text unchanged", "nushell comments end only at \\n",
               "PowerShell treats U+2018/2019/201A/201B as single-quote characters (language tokenizer)"]

SRC = (r"^clap_builder::builder::(arg::Arg::(get_help|get_long_help)|command::Command::(get_about|get_long_about|get_before_help|"
       r"get_before_long_help|get_after_help|get_after_long_help)|possible_value::PossibleValue::get_help)$")
SHELLS = {
    "fish": (r"^clap_complete::aot::shells::fish::", 4),
    "zsh": (r"^clap_complete::aot::shells::zsh::", 6),
    "powershell": (r"^clap_complete::aot::shells::powershell::", 3),
    "elvish": (r"^clap_complete::aot::shells::elvish::", 5),
    "nushell": (r"^clap_complete_nushell::", 2),
}


class Walker:
    def __init__(self, shell):
        self.shell = shell
        self.leaves = []     # (src_q, where, state, chain, ok, why, root)
        self.problems = []   # (kind, detail)
        self.root = None

    def lit(self, state, text, chain):
        chain = order_chain(chain)
        img = shellq.homomorphism(chain) if chain else None
        if chain and img is None:
            return shellq.scan(self.shell, state, text)
        if img:
            text = "".join(img(c) for c in text)
        return shellq.scan(self.shell, state, text)

    def walk(self, t, state, chain, depth=0):
        k = t[0]
        if depth > 200:
            return state
        if k == "const":
            return self.lit(state, t[1], chain)
        if k == "fmt":
            for it in t[1]:
                if isinstance(it, str):
                    state = self.lit(state, it, chain)
                else:
                    state = self.walk(it, state, chain, depth + 1)
            return state
        if k == "repl":
            return self.walk(t[3], state, chain_prepend(chain, (t[1], t[2])), depth + 1)
        if k == "src":
            ok, why = shellq.decide(self.shell, state, order_chain(chain))
            self.leaves.append((t[1], t[2], state, tuple(chain), ok, why, self.root))
            return state
        if k in ("cat", "alt"):
            ends = set()
            for it in t[1]:
                if it[0] == "const" and it[1] == "":
                    continue
                e = shellq.settle(self.walk(it, state, chain, depth + 1))
                if strflow.has_src(it):
                    ends.add(e)
            if len(ends) == 1:
                return ends.pop()
            ends.discard(state)
            if ends and strflow.has_src(t):
                # pieces whose order is unknown end in different lexer states: quoting is split across pieces
                self.problems.append(("unbalanced", "%s pieces end in lexer states %s (start %s)" % (k, sorted(ends), state)))
            return state
        if k == "iter":
            e = shellq.settle(self.walk(t[1], state, chain, depth + 1))
            if e != state and strflow.has_src(t):
                self.problems.append(("unbalanced", "iterated element ends in %s (start %s)" % (e, state)))
            return state
        if k == "join":
            # element, then separator, must bring the lexer back to where the next element starts
            e = self.walk(t[2], state, chain, depth + 1)
            s2 = shellq.settle(self.walk(t[1], e, chain, depth + 1))
            if s2 != state and strflow.has_src(t):
                self.problems.append(("unbalanced", "joined element + separator end in %s (start %s)" % (s2, state)))
            return e
        if k == "opaque":
            if strflow.has_src(t):
                for it in t[2]:
                    self.walk(it, state, chain_prepend(chain, (None, None)), depth + 1)
                self.problems.append(("unmodelled", "descriptive text flows through unmodelled call %s at %s" % (t[1], t[3])))
            return state
        # param / name / unknown / rec / closure: neutral text
        return state

    def walk_quiet(self, t, state, chain):
        w = Walker(self.shell)
        return w.walk(t, state, chain)


def chain_prepend(chain, step):
    """The walker descends from outer replaces to inner ones and records them in that order."""
    return list(chain) + [step]


def order_chain(chain):
    """Walker collects outer->inner while descending; application order is inner->outer."""
    return list(reversed(chain))


def run(ctx):
    fx, res = ctx.fx, ctx.res
    sf = strflow.StrFlow(fx, SRC, inline_crates={"clap_complete", "clap_complete_nushell"})
    total_sources = 0
    for shell, (modrx, floor) in SHELLS.items():
        bodies = fx.bodies(modrx)
        if not bodies:
            raise AnchorMissing("no bodies for generator %s" % shell)
        # census of source call sites in the module (floor)
        srcs = []
        for b in bodies:
            for c in b.calls():
                if c.callee_q and re.search(SRC, c.callee_q):
                    srcs.append(c)
            for c in b.calls():
                for q in c.fnitems:
                    if re.search(SRC, q):
                        srcs.append(c)
        res.floor("R17.1", "%s descriptive-text source call sites" % shell, len(srcs), floor)
        total_sources += len(srcs)
        seen_src_sites = set()
        w = Walker(shell)
        nroots = 0
        for b in bodies:
            for c in b.calls():
                q = c.callee_q or c.decl_q or ""
                if not strflow.PUSHERS.search(q) or len(c.args) < 2:
                    continue
                if re.search(r"write_fmt$", q):
                    t = sf.fmt_tree(b, c, c.args[1], {}, 0, ())
                else:
                    t = sf.tree(b, c.args[-1])
                if not strflow.has_src(t):
                    continue
                nroots += 1
                w.root = c.where()
                w.problems_before = len(w.problems)
                w.walk(t, shellq.BARE, [])
        # results per distinct (source site, state, chain)
        distinct = {}
        for (sq, where, state, chain, ok, why, root) in w.leaves:
            chain_o = tuple(order_chain(chain))
            ok, why = shellq.decide(shell, state, list(chain_o))
            key = (where, state, chain_o)
            distinct.setdefault(key, (sq, ok, why, root))
            seen_src_sites.add(where.split(" in ")[0])
        for (where, state, chain_o), (sq, ok, why, root) in sorted(distinct.items(), key=lambda kv: repr(kv[0])):
            fn = where.split(" in ")[1]
            slot = "%s|%s|%s" % (shell, fn, sq.rsplit("::", 1)[1])
            chain_s = " ".join("%r->%r" % (p, r_) for p, r_ in chain_o) or "(none)"
            res.check(ok, "R17.2", "%s|%s|%s" % (slot, state, chain_key(chain_o)), where,
                      "%s text in %s context neutralised by [%s]" % (sq.rsplit("::", 1)[1], state, chain_s),
                      "%s: %s text from %s reaches a %s context with escape chain [%s]: %s (sink root %s)" % (
                          shell, sq.rsplit("::", 1)[1], where, state, chain_s, why, root))
        for kind, detail in sorted(set(w.problems)):
            res.violation("R17.2", "%s|%s|%s" % (shell, kind, re.sub(r":\d+:\d+", "", detail)[:120]), modrx, "%s: %s" % (shell, detail))
        # every source call site of the module must have been reached by some root (no silent miss)
        for c in srcs:
            site = sp_str(c.sp)
            if presence_only(c):
                res.ok("R17.1", "%s|presence-test-only|%s" % (shell, c.body.q), c.where(), "result only tested with is_some/is_none")
                continue
            res.check(site in seen_src_sites or any(site.rsplit(":", 1)[0] in s for s in seen_src_sites), "R17.1",
                      "%s|covered|%s|%s" % (shell, c.body.q, (c.callee_q or "").rsplit("::", 1)[-1]), c.where(),
                      "source flows to an analysed sink root",
                      "%s: descriptive-text source at %s was not connected to any output sink by the analysis (cannot judge it)" % (shell, c.where()))
        res.note("%s: %d sink roots carrying descriptive text, %d distinct (source, context, chain) obligations" % (shell, nroots, len(distinct)))

    # bash: no descriptive-text source reachable
    bash_gen = fx.body("<clap_complete::aot::shells::bash::Bash as clap_complete::aot::generator::Generator>::generate")
    pred = fx.reachable_from([bash_gen], crates={"clap_complete"})
    hits = []
    ncalls = 0
    for (b, _) in pred.values():
        for c in b.calls():
            ncalls += 1
            if c.callee_q and re.search(SRC, c.callee_q) or any(re.search(SRC, q) for q in c.fnitems):
                hits.append(c)
    res.floor("R17.1", "bash generator bodies", len(pred), 8)
    if hits:
        for c in hits:
            res.violation("R17.1", "bash|source-reachable|%s" % c.body.q, c.where(),
                          "bash generator reaches descriptive text (%s); path %s" % (c.callee_q, " -> ".join(fx.path_to(pred, c.body))))
    else:
        res.ok("R17.1", "bash|no-source-reachable", bash_gen.where(), "%d bodies / %d calls reachable from Bash::generate, none is a descriptive-text getter" % (len(pred), ncalls))
    # positive control for the who-may-call rule: the same query must find sources from Fish::generate
    fish_gen = fx.body("<clap_complete::aot::shells::fish::Fish as clap_complete::aot::generator::Generator>::generate")
    predf = fx.reachable_from([fish_gen], crates={"clap_complete"})
    ctl = sum(1 for (b, _) in predf.values() for c in b.calls() if c.callee_q and re.search(SRC, c.callee_q))
    res.check(ctl >= 4, "R17.1", "control|who-may-call-finds-fish-sources", fish_gen.where(), "positive control: %d sources reachable from Fish::generate" % ctl,
              "positive control failed: reachability query finds no sources from Fish::generate")
    # ---- R17.3 an escaped string is never cut or edited afterwards: escaping maps one character to a multi-character sequence
    # (`'` -> `''`, `'\\''`, `\\'` ...); truncating, popping or slicing the ESCAPED text can split such a sequence and leave a lone quote
    CUT = r"String::(truncate|pop|remove|drain|replace_range|split_off|retain)$|^str::(split_at|split_at_mut|get|get_unchecked)$|str::char_indices$|Iterator>?::(take|nth|skip|step_by)$|str::(trim_end_matches|trim_start_matches|strip_suffix|strip_prefix)$"
    ncut = 0
    for shell, (modrx, floor) in SHELLS.items():
        for b in fx.bodies(modrx):
            top = b
            while top.kind == "Closure" and top.parent is not None:
                top = top.parent
            in_esc = re.search(r"escape", top.q.rsplit("::", 1)[1]) is not None
            for c in b.calls_to(CUT):
                if not in_esc and not (c.args and re.search(r"escape_\w+\(", expr(b, c.args[0]))):
                    continue
                ncut += 1
                res.violation("R17.3", "cut-after-escape|%s|%s" % (shell, top.q.rsplit("::", 1)[1]), c.where(),
                              "%s applies %s inside an escaping helper: the escaped text is cut or edited after its quotes were doubled/escaped, which can split an escape sequence (a lone quote ends the literal and the rest of the description becomes script)" % (top.q, c.callee_q.rsplit("::", 1)[1]))
    res.ok("R17.3", "no-cut-after-escape", "clap_complete / clap_complete_nushell", "escaping helpers only map characters (%d cutting operations found)" % ncut)
    res.note("strflow stats %s" % sf.stats)


def chain_key(chain):
    return ";".join("%s>%s" % (repr(p).strip("'\""), repr(r_).strip("'\"")) for p, r_ in chain)


def presence_only(c):
    """The source's Option result is only handed to is_some/is_none (never reaches output)."""
    b = c.body
    if not isinstance(c.dest, int):
        return False
    t = taint_forward(b, [c.dest])
    uses = [x for x in b.calls() if x is not c and any(op_local(a) in t for a in x.args)]
    return bool(uses) and all(x.is_(r"Option::is_some$", r"Option::is_none$") for x in uses)
