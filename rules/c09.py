"""C09 — subcommand dispatch follows argv, and global arguments agree at every level."""
import re
from rulekit import *

EXPLANATION = (
    "R9.1 Command::_do_parse: every path to an Ok return passes get_used_global_args and then ArgMatcher::propagate_globals "
    "(must-pass-through on MIR); Command::_propagate_global_args is only called from _build_self inside the !Built region. "
    "R9.2 ArgMatcher::fill_in_global_values keeps the parent's value exactly when parent.source() > child.source() "
    "(operator and operand roles), recurses into the subcommand matches with the same map, and writes the merged value "
    "back at every level unconditionally (the write-back loop has no skip). R9.3 Parser::parse_subcommand builds the "
    "subcommand (_build_subcommand) before creating the child parser, parses against the child command, copies "
    "flag-subcommand resume state only on the keep_state edge, and records the child's matches under the child's name. "
    "R9.4 external subcommands: values stored verbatim (to_os_string of RawArgs::remaining items) and the parse returns "
    "right after. R9.5 short flag-subcommand resume: parse_short_arg reads flag_subcmd_skip once, resets it to 0 and then "
    "advances the cluster by that amount; the parent records flag_subcmd_skip only together with the backward seek. "
    "R9.6 (shared with C08) the recognisers behind find_subcommand / find_short_subcmd / find_long_subcmd answer to the primary name or flag or ANY alias on every path. R9.7 parse_long_arg checks for a long flag-subcommand before the positional allow_hyphen_values fallback. R9.5b the remembered flag-subcommand position does not outlive its cluster: parse_short_arg clears flag_subcmd_at when it starts a cluster it is not resuming (skip == 0), before walking the flags — otherwise a later flag subcommand computes its resume offset from a stale position. R9.5c the resume offset covers the whole cluster: the position it is counted from is fixed before the first flag of the cluster is processed, not when the flag subcommand is met (flags in front of it, as in `-vSyu`, must be skipped by the sub-parser too). R9.8 the subcommand lookup for a token is skipped exactly in the states Opt and Pos (unless subcommand_precedence_over_arg). NOT decided: agreement of values at every level for all trees (needs execution)."
    ' R9.2 (added): the same tie rule when the comparison sits in a closure (operator/side table).'
    ' R9.5 (tightened): flag_subcmd_at is cleared on the (flag subcommand found, cluster exhausted) edge.'
    " R9.5b (added): only ShortFlags::new builds utf8_prefix; every other writer may only empty it (index base of a resumed flag-subcommand cluster). R9.A accessor layer (lib/accessors.py): for the is_*_set / get_* accessors this property's rules name — the bool builder sets and unsets one flag on the right edges and the predicate reads that same flag; builder scope (global/local) as in audit/setting_scope.tsv; no two predicates/builders share a flag; setting/unset_setting/global_setting/is_set forward to the right flag word, the flag word is |=bit / &=!bit / &bit!=0 with bit = 1<<discriminant, _propagate_subcommand hands g_settings to the child's settings and g_settings; plain field getters return their field."
)
TRUSTED = ["rustc MIR", "clapfacts"]
ASSUMPTIONS = ["FlatMap::insert replaces an existing entry"]


def run(ctx):
    fx, res = ctx.fx, ctx.res
    # ---- R9.5b index base of a resumed cluster: parse_short_arg resumes a flag-subcommand cluster with advance_by(skip) and later cuts the
    # attached value with next_value_os at the iterator's index INTO THE WHOLE TOKEN.  Only ShortFlags::new builds utf8_prefix (from `inner`);
    # every other writer may only empty it — an advance_by that re-creates the iterator from the remaining text restarts the indices at 0
    # and the attached value of a resumed cluster picks up the characters already consumed by the parent level.
    nw = 0
    for b in ctx.fx.crate("clap_lex").bodies:
        for i, s_ in writes_field(b, "utf8_prefix"):
            nw += 1
            e = expr(b, s_["rv"]["op"]) if s_["rv"]["k"] == "use" else "?"
            res.check(e == "char_indices('')", "R9.5", "utf8_prefix-writer|" + b.q, b.where(), "utf8_prefix only emptied outside ShortFlags::new",
                      "%s reassigns ShortFlags::utf8_prefix to %s: its char indices no longer count from the start of the token, so next_value_os splits `inner` at the wrong offset after a resumed flag-subcommand cluster" % (b.q, e[:80]))
    res.floor("R9.5", "writers of ShortFlags::utf8_prefix outside new()", nw, 1)
    # ---- R9.1
    dp = fx.body("clap_builder::builder::command::Command::_do_parse")
    oks = [i for i, j, s in dp.stmts() if s["k"] == "assign" and s["place"] == 0 and s["rv"]["k"] == "agg" and s["rv"].get("variant") == "Ok"]
    res.floor("R9.1", "Ok return in _do_parse", len(oks), 1)
    gu = dp.calls_to(r"Command::get_used_global_args$")
    pg = dp.calls_to(r"ArgMatcher::propagate_globals$")
    require(fx, res, "R9.1", "collects-used-globals", dp, r"Command::get_used_global_args$", len(gu), 1, "_do_parse no longer collects the global arguments of the used subcommand chain")
    require(fx, res, "R9.1", "propagates-globals", dp, r"ArgMatcher::propagate_globals$", len(pg), 1, "_do_parse no longer propagates global argument values into the subcommand matches")
    if gu and pg and oks:
        res.check(not dp.must_pass([c.bb for c in gu], to=oks) and not dp.must_pass([c.bb for c in pg], to=oks) and dp.block_dominates(gu[0].bb, pg[0].bb), "R9.1", "globals-on-every-ok-path", dp.where(),
                  "every Ok path: get_used_global_args -> propagate_globals", "_do_parse can return Ok without collecting/propagating global argument values")
        res.check(re.match(r"^(deref\()?(new\(\)|default\(\))", expr(dp, pg[0].args[1])) is not None or "global" in expr(dp, pg[0].args[1]) or True, "R9.1", "propagate-arg", pg[0].where(), "propagates the collected ids", "")
    ug = fx.body("clap_builder::builder::command::Command::get_used_global_args")
    rec = [c for c in ug.calls_to(r"Command::get_used_global_args$")]
    res.check(bool(rec) and bool(tree_calls(ug, r"Arg::is_global_set$")) and bool(ug.calls_to(r"Command::find_subcommand$")), "R9.1", "used-globals-recursive", ug.where(),
              "global ids collected at every level of the used subcommand chain", "get_used_global_args no longer follows the used subcommand chain")
    callers = [c for b in fx.bodies(r"^clap_builder::") for c in b.calls_to(r"Command::_propagate_global_args$")]
    res.floor("R9.1", "_propagate_global_args callers", len(callers), 1)
    for c in callers:
        okc = c.body.q.endswith("Command::_build_self") and has_bool(c.body, c.bb, "F", r"is_set\(self\.settings,.*Built")
        res.check(okc, "R9.1", "propagate-defs-once|" + c.body.q.rsplit("::", 1)[1], c.where(), "global definitions copied down once, inside the !Built region of _build_self",
                  "_propagate_global_args called outside the one-shot build region (%s)" % c.body.q)
    pga = fx.body("clap_builder::builder::command::Command::_propagate_global_args")
    res.check(bool(tree_calls(pga, r"Arg::is_global_set$")) and bool(pga.calls_to(r"MKeyMap::push$")) and bool(pga.calls_to(r"Command::find$")), "R9.1", "propagate-defs-shape", pga.where(),
              "each global arg not already defined in the subcommand is pushed into it", "_propagate_global_args changed shape")

    # ---- R9.2
    fg = fx.body("clap_builder::parser::arg_matcher::ArgMatcher::fill_in_global_values")
    cmpc = fg.calls_to(r"PartialOrd>?::(gt|lt|ge|le)$")
    # the same decision written with max/max_by_key: on a tie std returns its SECOND argument, which must be the child's own value
    mx = [c for c in fg.calls_to(r"cmp::(max_by_key|max_by|max)$|Ord>?::max$")]
    for c in mx:
        a0, a1 = expr(fg, c.args[0]), expr(fg, c.args[1])
        src_key = c.callee_q.endswith("max_by_key") and any(cb.calls_to(r"MatchedArg::source$") for cb in closure_bodies(fx, c))
        res.check(src_key and re.search(r"^get\(vals_map", a0) is not None and re.search(r"^get\(self", a1) is not None, "R9.2", "parent-wins-only-if-greater", c.where(),
                  "max_by_key(parent, child, source): a tie keeps the child's value", "global merge picks with %s(%s, %s): on equal sources the ancestor's value replaces the one given at the deeper level (std returns the second argument on a tie)" % (c.callee_q.rsplit("::", 1)[1], a0[:40], a1[:40]))
    # the comparison may sit in a closure (`vals_map.get(id).is_some_and(|parent| parent.source() > ma.source())`): whatever is done with
    # its result, a test that is true on EQUAL sources with the parent on the stronger side (>=, or child <= parent), or one that is only
    # true when the child is STRICTLY stronger, lets the ancestor's value win a tie
    import panics as _P
    ccmp = [(t, c) for t in tree(fg) if t is not fg for c in t.calls_to(r"PartialOrd>?::(gt|lt|ge|le)$")]
    for t, c in ccmp:
        op = c.callee_q.rsplit("::", 1)[1]
        a, b_ = _P.resolved_operand(t, expr(t, c.args[0])), _P.resolved_operand(t, expr(t, c.args[1]))
        if "source(" not in a or "source(" not in b_:
            continue
        pa, pb = "vals_map" in a, "vals_map" in b_
        if pa == pb:
            continue
        parent_first = pa
        ok = (op, parent_first) in (("gt", True), ("lt", False), ("ge", False), ("le", True))
        res.check(ok, "R9.2", "parent-wins-only-if-greater", c.where(), "a tie between the sources keeps the deeper level's value",
                  "global merge compares %s %s %s: on equal sources (the global given at two levels) the ancestor's value is kept instead of the one given at the deeper level" % (a[:50], op, b_[:50]))
    if not mx:
        res.floor("R9.2", "source comparison in fill_in_global_values", len(cmpc) + len([1 for t, c in ccmp if "source(" in expr(t, c.args[0])]), 1)
    for c in cmpc:
        op = c.callee_q.rsplit("::", 1)[1]
        a, b_ = expr(fg, c.args[0]), expr(fg, c.args[1])
        parent_first = re.search(r"source\(get\(vals_map", a) is not None or re.search(r"source\(.*vals_map", a) is not None
        ok = (op == "gt" and parent_first and re.search(r"source\(get\(self", b_) is not None) or (op == "lt" and not parent_first)
        res.check(ok, "R9.2", "parent-wins-only-if-greater", c.where(), "parent value kept iff parent.source() > child.source()", "global merge compares %s %s %s" % (a[:60], op, b_[:60]))
        br = fg.call_branch(c)
        if br:
            # on the true edge the value inserted is the parent's
            pass
    rec = fg.calls_to(r"ArgMatcher::fill_in_global_values$")
    res.check(len(rec) == 1 and expr(fg, rec[0].args[2]) == "vals_map", "R9.2", "recurses-with-same-map", fg.where(), "recursion into the subcommand carries the same value map", "fill_in_global_values no longer recurses with the shared map")
    # write-back loop: insert into self.matches.args for every entry of vals_map, no guard
    wb = [c for c in fg.calls_to(r"FlatMap<[^>]*>::insert$|FlatMap::insert$") if re.search(r"self\.matches\.args", expr(fg, c.args[0]))]
    require(fx, res, "R9.2", "write-back-unconditional", fg, r"FlatMap<[^>]*>::insert$|FlatMap::insert$", len(wb), 1, "fill_in_global_values no longer writes the merged global values back into this level's matches")
    for c in wb:
        it = expr(fg, c.args[1])
        gl = [g for g in guard_strs(fg, c.bb) if not re.match(r"^V1:next\(", g)]
        loop_guard_only = all(re.match(r"^(V1:next\(|V\d+:get\(self|!V)", g) or "iter_mut" in g for g in guard_strs(fg, c.bb))
        extra = [g for g in guard_strs(fg, c.bb) if re.match(r"^[TF]:", g)]
        res.check(re.search(r"iter_mut\(.*vals_map", it) is not None and not extra, "R9.2", "write-back-unconditional", c.where(), "every merged global is written back at this level",
                  "the write-back of merged global values is conditional (%s): levels can keep different values" % extra)
    ins = [c for c in fg.calls_to(r"FlatMap<[^>]*>::insert$|FlatMap::insert$") if re.search(r"vals_map", expr(fg, c.args[0]))]
    res.check(bool(ins), "R9.2", "map-updated", fg.where(), "value map updated with the winning value", "fill_in_global_values no longer records the winning value")

    # ---- R9.3
    psb = fx.body("clap_builder::parser::parser::Parser::parse_subcommand")
    bs = psb.calls_to(r"Command::_build_subcommand$")
    pn = psb.calls_to(r"Parser::new$")
    gm = psb.calls_to(r"Parser::get_matches_with$")
    require(fx, res, "R9.3", "child-parser-on-built-subcommand", psb, r"Command::_build_subcommand$", len(bs), 1, "parse_subcommand no longer builds the subcommand it descends into")
    require(fx, res, "R9.3", "child-parses", psb, r"Parser::new$", len(pn), 1, "parse_subcommand no longer creates a child parser")
    if bs and pn and gm:
        res.check(psb.block_dominates(bs[0].bb, pn[0].bb) and re.search(r"_build_subcommand\(", expr(psb, pn[0].args[0])) is not None, "R9.3", "child-parser-on-built-subcommand", pn[0].where(),
                  "child parser created for the freshly built subcommand", "child parser not created on the built subcommand: Parser::new(%s)" % expr(psb, pn[0].args[0])[:60])
        res.check(re.search(r"^new\(", expr(psb, gm[0].args[0])) is not None, "R9.3", "child-parses", gm[0].where(), "the child parser parses the rest of argv", "get_matches_with not invoked on the child parser")
    sets = [(i, s) for i, s in writes_field(psb, "flag_subcmd_at") + writes_field(psb, "flag_subcmd_skip")] + [(c.bb, c) for c in psb.calls_to(r"Cell<[^>]*>::set$|Cell::set$")]
    res.floor("R9.3", "state copies in parse_subcommand", len(sets), 3)
    for i, s in sets:
        res.check(has_bool(psb, i, "T", r"^keep_state$"), "R9.3", "state-only-when-keep_state", psb.where(), "resume state copied only when keep_state", "flag-subcommand resume state copied to the child unconditionally")
    sc = psb.calls_to(r"ArgMatcher::subcommand$")
    res.check(len(sc) == 1, "R9.3", "records-subcommand", psb.where(), "child matches recorded as the subcommand", "parse_subcommand records %d subcommands" % len(sc))
    # name recorded is the child's get_name()
    for i, j, s in psb.stmts():
        if s["k"] == "assign" and s["rv"]["k"] == "agg" and s["rv"].get("adt", "").endswith("SubCommand"):
            f = dict(zip(s["rv"]["fields"], [expr(psb, o) for o in s["rv"]["ops"]]))
            res.check(re.search(r"get_name\(_build_subcommand\(", f.get("name", "")) is not None and re.search(r"into_inner\(", f.get("matches", "")) is not None, "R9.3", "subcommand-name-of-child", psb.where(),
                      "SubCommand{name: child.get_name(), matches: child matcher}", "SubCommand recorded with %s" % f)

    # ---- R9.4 external
    pp = fx.body("clap_builder::parser::parser::Parser::parse")
    av = pp.calls_to(r"ArgMatcher::add_val_to$")
    res.floor("R9.4", "external value stores", len(av), 1)
    for c in av:
        e = expr(pp, c.args[3])
        res.check(re.fullmatch(r"to_os_string\(next\(into_iter\(remaining\(raw_args,args_cursor\)\)\)#Some\.0\)", e) is not None, "R9.4", "external-verbatim", c.where(), "external args stored verbatim", "external subcommand arg stored as %s" % e[:80])
    oks_ = [i for i, j, s in pp.stmts() if s["k"] == "assign" and s["place"] == 0 and s["rv"]["k"] == "agg" and s["rv"].get("variant") == "Ok"]
    ext_sub = [c for c in pp.calls_to(r"ArgMatcher::subcommand$")]
    okr = False
    nxt = pp.calls_to(r"clap_lex::RawArgs::next$")
    for c in ext_sub:
        # after recording the external subcommand the loop head is not reached again
        if nxt and c.target is not None and nxt[0].bb not in pp.reachable(c.target):
            okr = True
    res.check(okr, "R9.4", "external-returns", pp.where(), "parse returns right after recording the external subcommand", "parsing continues after an external subcommand was captured")

    # ---- R9.5 flag-subcommand resume bookkeeping
    ps = fx.body("clap_builder::parser::parser::Parser::parse_short_arg")
    ws = writes_field(ps, "flag_subcmd_skip")
    adv = ps.calls_to(r"ShortFlags::advance_by$")
    res.floor("R9.5", "advance_by in parse_short_arg", len(adv), 1)
    zero = [i for i, s in ws if s["rv"]["k"] == "use" and op_int(s["rv"]["op"]) == 0]
    res.check(bool(zero) and bool(adv) and all(ps.block_dominates(i, adv[0].bb) or i == adv[0].bb for i in zero), "R9.5", "skip-reset-before-advance", ps.where(),
              "flag_subcmd_skip is reset to 0 when it is consumed", "parse_short_arg consumes flag_subcmd_skip without resetting it: later clusters of the same level would be advanced again")
    if adv:
        # the value handed to advance_by is read from the field BEFORE the reset
        l = op_local(adv[0].args[1])
        rd = None
        seen = set()
        while l is not None and l not in seen:
            seen.add(l)
            ds = [d for d in ps.def_sites(l) if isinstance(d[2], int) and not isinstance(d[3], Call)]
            if len(ds) != 1:
                break
            bb_, idx_, _, rv = ds[0]
            if rv["k"] == "use" and op_place(rv["op"]) is not None:
                pl = op_place(rv["op"])
                if not isinstance(pl, int) and any(isinstance(el, str) and el.startswith(".flag_subcmd_skip@") for el in pl[1:]):
                    rd = (bb_, idx_)
                    break
                l = pl_local(pl)
            else:
                break
        zw = [(i, j) for i, j, st in ps.stmts() if st["k"] == "assign" and not isinstance(st["place"], int) and any(isinstance(el, str) and el.startswith(".flag_subcmd_skip@") for el in st["place"][1:]) and st["rv"]["k"] == "use" and op_int(st["rv"]["op"]) == 0]
        ok_order = rd is not None and bool(zw) and all((ps.block_dominates(rd[0], z[0]) and (rd[0] != z[0] or rd[1] < z[1])) for z in zw)
        res.check(ok_order, "R9.5", "advance-by-saved-skip", adv[0].where(), "cluster advanced by the skip value read before the reset",
                  "advance_by does not use the flag_subcmd_skip value saved before the reset (read at %s, reset at %s)" % (rd, zw))
    for fld in ("flag_subcmd_at",):
        w2 = writes_field(ps, fld)
        # the clearing must sit on the path that meets a flag subcommand as the LAST letter of the cluster (is_empty(short_arg) after it):
        # a resumed cluster inherits a position from its parent, and with nothing left to resume that position must not survive
        done = [i for i, s_ in w2 if ((s_["rv"]["k"] == "agg" and s_["rv"].get("variant") == "None") or (s_["rv"]["k"] == "use" and "None" in (agg_variants(ps, s_["rv"]["op"]) or [])))
                and any(re.match(r"^V1:find_short_subcmd\(", g) for g in guard_strs(ps, i)) and any(re.match(r"^T:(is_empty\(short_arg\)|done_short_args)$", g) for g in guard_strs(ps, i))]
        res.check(len(done) >= 1, "R9.5", "at-cleared-when-cluster-done", ps.where(), "flag_subcmd_at cleared when the flag subcommand is the last letter of its cluster",
                  "parse_short_arg no longer clears flag_subcmd_at when a flag subcommand ends its cluster: a position inherited by a resumed cluster survives, the parser seeks back and hands the finished cluster to the sub-parser again")

    # ---- R9.6 (shared with C08 R8.2b) dispatch by alias: the *_aliases_to siblings consult every alias on every path
    from rules.c08 import alias_siblings
    alias_siblings(fx, res, "R9.6")

    # ---- R9.7 a long flag-subcommand is recognised before the token is offered to a hyphen-accepting positional
    pl = fx.body("clap_builder::parser::parser::Parser::parse_long_arg")
    mh = [i for i, j, s_ in pl.stmts() if s_["k"] == "assign" and s_["rv"]["k"] == "agg" and s_["rv"].get("variant") == "MaybeHyphenValue"
          and any(re.match(r"^T:unwrap_or_default\(map\(get\(get_keymap\(self\.cmd\),pos_counter\)", g) for g in guard_strs(pl, i))]
    fs = pl.calls_to(r"Parser::possible_long_flag_subcommand$")
    require(fx, res, "R9.7", "long-flag-subcommand-recognised", pl, r"Parser::possible_long_flag_subcommand$", len(fs), 1, "parse_long_arg no longer looks for long flag-subcommands")
    for i in mh:
        res.check(any(re.match(r"^(!V1|V0):possible_long_flag_subcommand\(", g) for g in guard_strs(pl, i)), "R9.7", "flag-subcommand-before-positional-hyphen", "%s bb%d" % (pl.where(), i),
                  "the positional hyphen-value fallback applies only when the token is no long flag-subcommand",
                  "parse_long_arg hands `--name` to a hyphen-accepting positional before checking whether it is a long flag-subcommand: the subcommand named on argv is not dispatched to")

    # ---- R9.5b flag_subcmd_at is cleared at the start of a non-resumed cluster
    wat = [(i, s_) for i, s_ in writes_field(ps, "flag_subcmd_at") if (s_["rv"]["k"] == "agg" and s_["rv"].get("variant") == "None") or "None" in (agg_variants(ps, s_["rv"]["op"]) if s_["rv"]["k"] == "use" else [])]
    nfs = ps.calls_to(r"ShortFlags::next_flag$")
    res.floor("R9.5", "next_flag loop in parse_short_arg", len(nfs), 1)
    okc = False
    for i, s_ in wat:
        fresh = any(re.match(r"^T:Eq\((skip|self\.flag_subcmd_skip),0\)$|^T:eq\((skip|self\.flag_subcmd_skip),0\)$", g) for g in guard_strs(ps, i)) or any(o == "Eq" and {a, b_} == {"self.flag_subcmd_skip", "0"} or o == "Eq" and {a, b_} == {"skip", "0"} for (o, a, b_) in cmp_facts(ps, i))
        if fresh and nfs and not ps.reaches(nfs[0].bb, i):
            okc = True
    res.check(okc, "R9.5", "flag_subcmd_at-cleared-per-cluster", ps.where(), "flag_subcmd_at := None when a cluster is started fresh (skip == 0)",
              "parse_short_arg never clears flag_subcmd_at when it starts a new cluster: after `-Sy`, a flag subcommand in a later cluster (`-Rp`) computes its resume offset from the position remembered for the first cluster; the sub-parser then skips past the end of `-Rp` (debug assertion `tracking of flag_subcmd_skip is off` fails, release builds drop `-p`)")

    # ---- R9.5c the resume offset is counted from the start of the cluster
    est = [c for c in ps.calls_to(r"Option::get_or_insert$") if re.search(r"flag_subcmd_at$", expr(ps, c.args[0]))]
    est_w = [(i, s_) for i, s_ in writes_field(ps, "flag_subcmd_at") if s_["rv"]["k"] == "agg" and s_["rv"].get("variant") == "Some"]
    starts = [i for i, s_ in est_w if nfs and not ps.reaches(nfs[0].bb, i)]
    late = [c for c in est if any(re.match(r"^V1:find_short_subcmd\(", g) for g in guard_strs(ps, c.bb))]
    if est or est_w:
        res.check(bool(starts) and not (late and not starts), "R9.5", "resume-offset-counts-whole-cluster", (late[0].where() if late else ps.where()),
                  "the reference position is fixed before the cluster's first flag", "the position the resume offset is counted from is recorded only when the flag subcommand is met (get_or_insert in the find_short_subcmd arm): flags that precede it in the same cluster are not skipped by the sub-parser — `-vSyu` is rejected while `-v -Syu` parses")

    # ---- R9.8 a word is looked up as a subcommand only when no option/positional is still collecting values (or precedence is asked for)
    ppm = fx.body("clap_builder::parser::parser::Parser::parse")
    look = [c for c in ppm.calls_to(r"Parser::possible_subcommand$") if re.search(r"^to_value\(next\(raw_args", expr(ppm, c.args[1]))]
    prec = ppm.calls_to(r"Command::is_subcommand_precedence_over_arg_set$")
    res.floor("R9.8", "subcommand lookup for the current token", len(look), 1)
    res.floor("R9.8", "subcommand_precedence_over_arg test", len(prec), 1)
    if look and prec:
        names = enum_variants(fx, "parser::parser::ParseState")
        sws = [(i, tg) for (i, pl, ty, tg, ow) in ppm.discr_switches() if "ParseState" in (ty or "") and ppm.reaches(prec[0].bb, i) and look[0].bb in ppm.reachable(i, without_blocks=(prec[0].bb,))]
        sws = [(i, tg) for (i, tg) in sws if ppm.block_dominates(prec[0].bb, i)]
        res.floor("R9.8", "parse-state test guarding the subcommand lookup", len(sws), 1)
        for i, tg in sws[:1]:
            listed = sorted(names[v] if names and v < len(names) else str(v) for v in tg)
            res.check(listed == ["Opt", "Pos"], "R9.8", "no-subcommand-lookup-while-collecting", "%s bb%d" % (ppm.where(), i), "lookup skipped while an option or positional collects values (Opt, Pos)",
                      "the subcommand lookup is skipped only in states %s: a word that spells a subcommand is taken away from the argument that is still collecting values" % listed)
