"""C13 — lexing any OS string is a lossless, consistent decomposition."""
import os, re
from rulekit import *
import vset, panics

EXPLANATION = (
    "Structural necessary conditions on clap_lex (MIR): R13.1 unsafe-boundary provenance — every call of the unsafe "
    "splitter ext::split_at receives an index that is CharIndices::next().0 or Utf8Error::valid_up_to() of the same "
    "string, and every OsStr::from_encoded_bytes_unchecked argument is a sub-slice of as_encoded_bytes() cut at "
    "find(needle:&str) / find+needle.len() / strip_prefix(prefix.as_bytes()) / ext::split_at halves; "
    "R13.1b ShortFlags::new builds the CharIndices from the valid prefix of the same `inner` it stores. "
    "R13.2 encapsulation witnesses (compile_fail doctests in /verif/witness, thorough tier). R13.3 sibling literals: "
    "is_long/to_long test `--`, is_short/to_short `-` then `--`, is_escape `--`, is_stdio `-`; to_long splits at the first "
    "`=` (split_once -> find, never rfind). R13.4 PANIC over every clap_lex body. R13.5 next_value_os exhausts the iterator on every returning path. R13.6 the non-UTF-8 fallback of to_long/to_value returns the very string whose conversion failed. R13.7 the two negative-number classifiers agree: ParsedArg::is_negative_number = is_number(text after exactly one leading `-`) on "
    "valid UTF-8 only, ShortFlags::is_negative_number = is_number(remaining valid prefix) only when there is no invalid suffix. R13.8 cluster walk: ShortFlags::next_flag yields the next char of the valid prefix first, then the invalid suffix exactly once "
    "(cleared in the same block), then None; is_empty is `no invalid suffix && prefix exhausted`; Iterator::next delegates to next_flag. R13.9 is_number: once every byte passed the scan the result is true unless an exponent marker is the last byte. NOT decided: byte-for-byte "
    "re-assembly for all inputs, the in-loop part of the language of is_number."
    ' R13.1 (added): an unsafe block is covered when every call in it is ext::split_at / from_encoded_bytes_unchecked (checked per call site) or an ordinary safe call; a written-out split_at is judged by the same boundary provenance.'
    ' R13.3 lemma (added): OsStrExt::find reaches its scan whenever len >= needle.len() and walks to the last start position.'
)
TRUSTED = ["rustc MIR", "clapfacts", "lib/panics.py", "audit/panic.tsv", "std: char_indices/valid_up_to/str::find return char boundaries"]
ASSUMPTIONS = ["OsStr encoded bytes are a superset of UTF-8 in which any split adjacent to valid UTF-8 text is sound (std documentation of from_encoded_bytes_unchecked)"]
AUDIT = os.path.join(os.path.dirname(os.path.dirname(os.path.abspath(__file__))), "audit", "panic.tsv")


def run(ctx):
    fx, res = ctx.fx, ctx.res
    import lemmas
    lemmas.osstr_find_complete(fx, res, "R13.3")
    cl = fx.crate("clap_lex")
    # ---- R13.1
    sa = [c for b in cl.bodies for c in b.calls_to(r"^clap_lex::ext::split_at$")]
    # (a caller may have the helper written out in place: raw `as_encoded_bytes().split_at(idx)` sites count, they are checked with the unchecked-arg rule)
    raw_sa = [c for b in cl.bodies if b.q != "clap_lex::ext::split_at" for c in b.calls_to(r"^\[T\]::split_at$") if re.match(r"^as_encoded_bytes\(", expr(b, c.args[0]))]
    res.floor("R13.1", "ext::split_at call sites", len(sa) + len(raw_sa), 2)
    for c in sa:
        b = c.body
        s, idx = expr(b, c.args[0]), expr(b, c.args[1])
        ok = False
        why = ""
        m = re.fullmatch(r"valid_up_to\(try_str\((.*)\)#Err\.0\)", idx)
        if m and m.group(1) == s:
            ok, why = True, "index = valid_up_to() of the same string"
        m = re.fullmatch(r"next\((.*)\.utf8_prefix\)#Some\.0\.0", idx)
        if m and s == m.group(1) + ".inner":
            ok, why = True, "index = char_indices().next().0 over the valid prefix of the same `inner`"
        res.check(ok, "R13.1", "split_at-index|" + b.q, c.where(), "split_at(%s, %s): %s" % (s, idx, why),
                  "unsafe ext::split_at called with an index that is not a char boundary of that string by construction: split_at(%s, %s)" % (s, idx))
    # ShortFlags::new: utf8_prefix = char_indices(split_nonutf8_once(inner).0), inner stored unchanged
    sn = fx.body("clap_lex::ShortFlags::new")
    ok = False
    for i, j, s in sn.stmts():
        if s["k"] == "assign" and s["rv"]["k"] == "agg" and s["rv"].get("adt", "").endswith("ShortFlags"):
            f = dict(zip(s["rv"]["fields"], [expr(sn, o) for o in s["rv"]["ops"]]))
            ok = f.get("inner") == "inner" and re.fullmatch(r"char_indices\(split_nonutf8_once\(inner\)\.0\)", f.get("utf8_prefix", "")) is not None \
                and re.fullmatch(r"split_nonutf8_once\(inner\)\.1", f.get("invalid_suffix", "")) is not None
            if not ok and f.get("inner") == "inner":
                # split_nonutf8_once written out in place: (prefix, suffix) = (inner as str, None) if inner is UTF-8, else the two halves of
                # split_at(inner, valid_up_to) — the index itself is covered by the split_at-index rule above
                m1 = re.fullmatch(r"char_indices\(_(\d+)\.0\)", f.get("utf8_prefix", ""))
                m2 = re.fullmatch(r"_(\d+)\.1", f.get("invalid_suffix", ""))
                if m1 and m2 and m1.group(1) == m2.group(1):
                    prs = [tuple(expr(sn, o) for o in d[3]["ops"]) for d in sn.def_sites(int(m1.group(1))) if isinstance(d[3], dict) and d[3]["k"] == "agg"]
                    ok = len(prs) == 2 and all(
                        (a == "try_str(inner)#Ok.0" and b.startswith("Option::None")) or
                        (re.fullmatch(r"(unwrap|expect)\(try_str\(split_at\(inner,(.*)\)\.0\).*\)", a) is not None and
                         re.fullmatch(r"Option::Some\(split_at\(inner,(.*)\)\.1\)", b) is not None) for a, b in prs) and len(set(prs)) == 2
            res.check(ok, "R13.1", "shortflags-new", sn.where(), "ShortFlags{inner, char_indices(valid prefix of inner), invalid suffix of inner}",
                      "ShortFlags::new no longer derives utf8_prefix/invalid_suffix from the `inner` it stores: %s" % f)
    if not ok and not any(i["key"].endswith("shortflags-new") for i in res.items):
        raise AnchorMissing("ShortFlags::new aggregate not found")
    # no other writer of utf8_prefix keeps a non-empty iterator
    for b in cl.bodies:
        for i, s in writes_field(b, "utf8_prefix"):
            e = expr(b, s["rv"]["op"]) if s["rv"]["k"] == "use" else "?"
            res.check(e == "char_indices('')", "R13.1", "utf8_prefix-writer|" + b.q, b.where(), "utf8_prefix reset to \"\".char_indices()",
                      "utf8_prefix reassigned to %s (may desynchronise from `inner`)" % e)
    ub = [c for b in cl.bodies for c in b.calls_to(r"OsStr::from_encoded_bytes_unchecked$")]
    res.floor("R13.1", "from_encoded_bytes_unchecked call sites", len(ub), 5)
    for c in ub:
        b = c.body
        e = expr(b, c.args[0])
        ok = False
        if re.fullmatch(r"index\(as_encoded_bytes\(self\),Range::Range\(0,branch\(find\(self,needle\)\)#Continue\.0\)\)", e):
            ok = True
        elif re.fullmatch(r"index\(as_encoded_bytes\(self\),RangeFrom::RangeFrom\(Add\(branch\(find\(self,needle\)\)#Continue\.0,len\(needle\)\)\)\)", e):
            ok = True
        elif re.fullmatch(r"split_at\(as_encoded_bytes\(os\),index\)\.[01]", e) and b.q == "clap_lex::ext::split_at":
            ok = True
        elif b.kind == "Closure" and b.parent is not None and b.parent.q.endswith("OsStrExt>::strip_prefix"):
            P = b.parent
            mk = [cc for cc in P.calls() if b.q in cc.closures]
            ok = bool(mk) and all(re.fullmatch(r"strip_prefix\(as_encoded_bytes\(self\),as_bytes\(prefix\)\)", expr(P, cc.args[0])) for cc in mk)
        if not ok:
            # ext::split_at written out in place: the same boundary provenance as the split_at-index rule above
            mm = re.fullmatch(r"split_at\(as_encoded_bytes\((.*)\),(.*)\)\.[01]", e)
            if mm:
                x_, idx_ = mm.group(1), mm.group(2)
                m1 = re.fullmatch(r"next\((.*)\.utf8_prefix\)#Some\.0\.0", idx_)
                m2 = re.fullmatch(r"valid_up_to\(try_str\((.*)\)#Err\.0\)", idx_)
                ok = bool((m1 and x_ == m1.group(1) + ".inner") or (m2 and x_ == m2.group(1)))
        res.check(ok, "R13.1", "unchecked-arg|%s" % b.q, c.where(), "argument is a boundary-cut sub-slice of as_encoded_bytes(): %s" % e[:90],
                  "from_encoded_bytes_unchecked on bytes not provably cut at a UTF-8 boundary of the encoded string: %s" % e[:140])
    # needle/prefix parameters are &str (so any match is along a UTF-8 boundary)
    for fn_ in ("find", "strip_prefix", "split_once", "starts_with", "split"):
        b = fx.body("<std::ffi::os_str::OsStr as clap_lex::ext::OsStrExt>::" + fn_)
        res.check(b.local_ty(2) in ("&str", "&'n str", "&'_ str") or b.local_ty(2).endswith(" str"), "R13.1", "needle-is-str|" + fn_, b.where(), "needle: %s" % b.local_ty(2),
                  "%s takes a needle of type %s (boundary argument needs &str)" % (fn_, b.local_ty(2)))

    # ---- R13.3 sibling literals
    def lits(q, callee_rx):
        b = fx.body("clap_lex::ParsedArg::" + q)
        out = []
        for c in b.calls_to(callee_rx):
            for a in c.args[1:]:
                s = const_of(b, a)
                if s is not None:
                    out.append(s)
        return b, out
    table = {
        "is_long": (r"OsStrExt>::starts_with$", ["--"]),
        "to_long": (r"OsStrExt>::(strip_prefix|split_once)$", ["--", "="]),
        "is_short": (r"OsStrExt>::starts_with$", ["-", "--"]),
        "to_short": (r"OsStrExt>::(strip_prefix|starts_with)$", ["-", "-"]),
        "is_escape": (r"PartialEq.*::eq$", ["--"]),
        "is_stdio": (r"PartialEq.*::eq$", ["-"]),
    }
    for q, (rx, want) in table.items():
        b, got = lits(q, rx)
        res.check(got == want, "R13.3", "literals|" + q, b.where(), "%s tests %s" % (q, got), "%s tests %s, expected %s" % (q, got, want))
    # is_long also excludes the escape; is_short excludes stdio
    bl_ = fx.body("clap_lex::ParsedArg::is_long")
    res.check(bool(bl_.calls_to(r"ParsedArg::is_escape$")), "R13.3", "is_long-excludes-escape", bl_.where(), "is_long = starts_with(--) && !is_escape", "is_long no longer excludes `--`")
    bs_ = fx.body("clap_lex::ParsedArg::is_short")
    res.check(bool(bs_.calls_to(r"ParsedArg::is_stdio$")), "R13.3", "is_short-excludes-stdio", bs_.where(), "is_short excludes `-`", "is_short no longer excludes `-`")
    # split at the FIRST `=`
    so = fx.body("<std::ffi::os_str::OsStr as clap_lex::ext::OsStrExt>::split_once")
    fc = so.calls_to(r"OsStrExt>?::find$")
    res.check(len(fc) == 1 and not so.calls_to(r"rfind|rposition|::rev$|last$"), "R13.3", "split_once-first", so.where(), "split_once cuts at find(needle) (first occurrence)",
              "split_once no longer cuts at the first occurrence")
    fd = fx.body("<std::ffi::os_str::OsStr as clap_lex::ext::OsStrExt>::find")
    fms = first_match_scan(fx, fd)
    res.check(bool(fms) and fms["first"], "R13.3", "find-first", fd.where(), "find scans 0..=len-needle.len() forward",
              "OsStrExt::find no longer returns the first match")

    # ---- R13.5 next_value_os exhausts the iterator: every path that returns Some clears invalid_suffix, and the
    # valid-prefix path also resets utf8_prefix (so that `remaining value` = exactly the unread bytes, once)
    nv = fx.body("clap_lex::ShortFlags::next_value_os")
    somes = [i for i, j, s in nv.stmts() if s["k"] == "assign" and s["place"] == 0 and s["rv"]["k"] == "agg" and s["rv"].get("variant") == "Some"]
    res.floor("R13.5", "Some returns in next_value_os", len(somes), 2)
    wsuf = [i for i, s in writes_field(nv, "invalid_suffix") if (s["rv"]["k"] == "agg" and s["rv"].get("variant") == "None") or "None" in (agg_variants(nv, s["rv"]["op"]) if s["rv"]["k"] == "use" else set())]
    for k, i in enumerate(somes):
        ok = any(nv.block_dominates(w, i) for w in wsuf)
        res.check(ok, "R13.5", "value-exhausts|%d" % k, "%s bb%d" % (nv.where(), i), "invalid_suffix cleared before returning the remaining value",
                  "next_value_os returns the remaining value on a path that leaves invalid_suffix queued: a later call yields the non-UTF-8 tail again")
    wpre = writes_field(nv, "utf8_prefix")
    res.check(len(wpre) >= 1, "R13.5", "prefix-reset", nv.where(), "utf8_prefix reset on the valid-prefix path", "next_value_os no longer resets utf8_prefix")
    # ---- R13.7 sibling negative-number classifiers
    pn = fx.body("clap_lex::ParsedArg::is_negative_number")
    sn = fx.body("clap_lex::ShortFlags::is_negative_number")
    pc = [(t, c) for t in tree(pn) for c in t.calls_to(r"^clap_lex::is_number$")]
    sc_ = [(t, c) for t in tree(sn) for c in t.calls_to(r"^clap_lex::is_number$")]
    if not pc or not sc_:
        res.violation("R13.7", "siblings-use-is_number", (pn if not pc else sn).where(), "a negative-number classifier no longer decides through is_number: ParsedArg and ShortFlags would disagree on what a number is")
    for t, c in pc:
        e = expr(t, c.args[0])
        # `to_value().ok().and_then(|s| Some(is_number(s.strip_prefix('-')?)))` or the same as nested matches; whatever else the function returns is `false`
        okp = re.fullmatch(r"(branch\(strip_prefix\((s|to_value\(self\)#Ok\.0|ok\(to_value\(self\)\)#Some\.0),(45|'-')\)\)#Continue\.0|strip_prefix\((s|to_value\(self\)#Ok\.0|ok\(to_value\(self\)\)#Some\.0),(45|'-')\)#Some\.0)", e) is not None
        others = [d for d in pn.def_sites(0) if isinstance(d[3], dict)]
        okp = okp and all(d[3]["k"] == "use" and op_int(d[3]["op"]) == 0 for d in others)
        res.check(okp and bool(pn.calls_to(r"ParsedArg::to_value$")), "R13.7", "parsed-arg", c.where(),
                  "is_number(to_value()?.strip_prefix('-')?)", "ParsedArg::is_negative_number tests is_number(%s)" % e[:80])
    for t, c in sc_:
        e = expr(t, c.args[0])
        res.check(e == "as_str(self.utf8_prefix)" and has_bool(t, c.bb, "T", r"^is_none\(self\.invalid_suffix\)$"), "R13.7", "short-flags", c.where(),
                  "invalid_suffix.is_none() && is_number(utf8_prefix.as_str())", "ShortFlags::is_negative_number tests is_number(%s) under %s" % (e[:60], guard_strs(t, c.bb)))
    # ---- R13.8b advance_by(n) = n successful next_flag() calls: it stops with Err(i) on exhaustion AND on the invalid suffix
    ab = fx.body("clap_lex::ShortFlags::advance_by")
    heads = [c for c in ab.calls_to(r"Iterator>?::next$") if re.search(r"Range", expr(ab, c.args[0]))]
    tfe = [c for c in ab.calls_to(r"Iterator>?::try_for_each$") if re.match(r"^Range::Range\(0,n\)$", expr(ab, c.args[0]))]
    res.floor("R13.8", "loop head of advance_by", len(heads) + len(tfe), 1)
    for c in tfe:
        # (0..n).try_for_each(|i| ..): the closure's Ok comes only from a flag that is Some(Ok(_)) — exhaustion and the invalid suffix both give Err(i)
        cbs = own_closures(fx, c)
        okb = bool(cbs)
        for cb in cbs:
            nx = r"branch\(ok_or\((next|next_flag)\(arg1\.0\),\w+\)\)"
            for d in cb.def_sites(0):
                rv = d[3]
                if isinstance(rv, Call) and rv.is_(r"FromResidual>?::from_residual$") and re.fullmatch(nx + r"#Break\.0", expr(cb, rv.args[0])):
                    continue
                if isinstance(rv, Call) and rv.is_(r"Result(<[^>]*>)?::map_err$") and re.fullmatch(r"(map\()?" + nx + r"#Continue\.0(,closure\(\)\))?", expr(cb, rv.args[0])):
                    continue
                okb = False
        res.check(okb, "R13.8", "advance_by-stops-on-invalid", ab.where(), "try_for_each continues only after a flag that is Some(Ok(_))",
                  "advance_by's try_for_each closure can return Ok for something other than a successfully read flag")
    if heads:
        h = heads[0]
        back = [p for p in ab.pred()[h.bb] if h.bb in ab.reachable(h.target if h.target is not None else h.bb) and p in ab.reachable(h.target if h.target is not None else h.bb)]
        inner_ok = r"^V0:(branch\(map_err\(|.*next(_flag)?\(self\)\)?#Some\.0|.*#Continue\.0\)?$)|^V0:branch\(map_err"
        okb = bool(back) and all(any(re.search(r"^V0:branch\(map_err\(|^V0:[^!]*next(_flag)?\(self\)[^,]*#Some\.0", g) for g in guard_strs(ab, p)) for p in back)
        res.check(okb, "R13.8", "advance_by-stops-on-invalid", ab.where(), "the loop continues only after a flag that is Some(Ok(_))",
                  "advance_by keeps counting after next() yielded the invalid suffix (Some(Err(_))): advance_by(n) is no longer n successful next_flag() calls (back-edge guards %s)" % [guard_strs(ab, p)[-2:] for p in back])
    # ---- R13.9 is_number: after the scan the only rejection is a dangling exponent
    isn = fx.body("clap_lex::is_number")
    # after the scan: the loop's None edge, or (closure form `bytes.iter().enumerate().all(|(i, c)| ..)`) the true edge of all(..)
    post = [d for d in result_defs(isn) if any(re.match(r"^V0:next\(into_iter\(enumerate\(|^T:all\(enumerate\(", g) for g in guard_strs(isn, d[0]))]
    res.floor("R13.9", "post-scan results of is_number", len(post), 2)
    # which variant of `position_of_e` a block sits on, read from the discriminant switches on that local itself (when the scan is a
    # closure the local is updated through a captured &mut and its canonical expression is just its initial value)
    pe_edges = {}
    for l_ in isn.locals_named("position_of_e"):
        for (sb, pl_, ty_, tg, ow) in isn.discr_switches(l_):
            for v_, t_ in list(tg.items()) + [(None, ow)]:
                vv = v_ if v_ is not None else (1 - list(tg)[0] if len(tg) == 1 and list(tg)[0] in (0, 1) else None)
                if vv is not None:
                    for blk in isn.reachable(t_, without_blocks=[x for x in list(tg.values()) + [ow] if x != t_]):
                        if isn.edge_dominates((sb, t_), blk):
                            pe_edges.setdefault(blk, set()).add(vv)
    for d in post:
        gl = list(guard_strs(isn, d[0]))
        for vv in pe_edges.get(d[0], ()):
            gl.append("V%d:position_of_e" % vv)
        rv = d[3]
        if "V0:position_of_e" in gl:
            res.check(isinstance(rv, dict) and rv["k"] == "use" and op_int(rv["op"]) == 1, "R13.9", "no-exponent-accepted", "%s bb%d" % (isn.where(), d[0]), "without an exponent every scanned text is a number",
                      "is_number rejects texts that passed the scan and have no exponent (e.g. `1.`): `-1.` is a value in `--opt=-1.` but an unknown flag in `--opt -1.`")
        elif "V1:position_of_e" in gl:
            okd = isinstance(rv, dict) and rv["k"] == "binop" and rv["op"] == "Ne" and {re.sub(r"^Option::None\(\)#Some\.0$", "position_of_e#Some.0", expr(isn, rv["a"])), re.sub(r"^Option::None\(\)#Some\.0$", "position_of_e#Some.0", expr(isn, rv["b"]))} == {"position_of_e#Some.0", "Sub(len(arg),1)"}
            res.check(okd, "R13.9", "dangling-exponent", "%s bb%d" % (isn.where(), d[0]), "with an exponent: rejected only if `e` is the last byte", "is_number's exponent check is no longer `position != len - 1`")
        else:
            res.violation("R13.9", "post-scan-unrecognised", "%s bb%d" % (isn.where(), d[0]), "is_number decides after the scan under %s" % gl[-2:])
    # ---- R13.8 next_flag / is_empty
    nf = fx.body("clap_lex::ShortFlags::next_flag")
    rets = [(i, s_) for i, j, s_ in nf.stmts() if s_["k"] == "assign" and s_["place"] == 0 and s_["rv"]["k"] == "agg"]
    # `self.invalid_suffix.take().map(Err)`: Some(Err(suffix)) exactly once (take() clears it) and None afterwards, in one expression
    tk = [d for d in nf.def_sites(0) if isinstance(d[3], Call) and d[3].is_(r"Option(<[^>]*>)?::map$") and re.fullmatch(r"take\(self\.invalid_suffix\)", expr(nf, d[3].args[0]))]
    for d in tk:
        gl_ = guard_strs(nf, d[0])
        res.check(("!V1:next(self.utf8_prefix)" in gl_ or "V0:next(self.utf8_prefix)" in gl_) and any(re.search(r"Result::Err$|::Err$", q) for q in d[3].fnitems), "R13.8", "suffix-once-after-prefix", "%s bb%d" % (nf.where(), d[0]),
                  "invalid_suffix.take().map(Err) only after the prefix is exhausted", "next_flag hands out the invalid suffix before the prefix is exhausted (guards %s)" % gl_)
    res.floor("R13.8", "return constructions in next_flag", len(rets) + 2 * len(tk), 3)
    wsuf = [i for i, s_ in writes_field(nf, "invalid_suffix")]
    for i, s_ in rets:
        v = s_["rv"].get("variant")
        ops = [expr(nf, o) for o in s_["rv"].get("ops", [])]
        gl = guard_strs(nf, i)
        if v == "Some" and ops and ops[0].startswith("Result::Ok("):
            res.check(ops[0] == "Result::Ok(next(self.utf8_prefix)#Some.0.1)" and "V1:next(self.utf8_prefix)" in gl, "R13.8", "flag-from-prefix", "%s bb%d" % (nf.where(), i),
                      "Some(Ok(next char of the valid prefix))", "next_flag returns %s under %s" % (ops[0][:60], gl))
        elif v == "Some":
            res.check(ops and ops[0] == "Result::Err(self.invalid_suffix#Some.0)" and ("!V1:next(self.utf8_prefix)" in gl or "V0:next(self.utf8_prefix)" in gl) and i in wsuf, "R13.8", "suffix-once-after-prefix", "%s bb%d" % (nf.where(), i),
                      "Some(Err(invalid suffix)) only after the prefix is exhausted; the suffix is cleared", "next_flag returns the invalid suffix before the prefix is exhausted or without clearing it (guards %s, cleared=%s)" % (gl, i in wsuf))
        elif v == "None":
            res.check(("!V1:next(self.utf8_prefix)" in gl or "V0:next(self.utf8_prefix)" in gl) and ("!V1:self.invalid_suffix" in gl or "V0:self.invalid_suffix" in gl), "R13.8", "none-when-exhausted", "%s bb%d" % (nf.where(), i),
                      "None only when prefix and suffix are exhausted", "next_flag returns None under %s" % gl)
    ie = fx.body("clap_lex::ShortFlags::is_empty")
    emp = ie.calls_to(r"^str::is_empty$")
    none_edge = bool(emp) and (has_bool(ie, emp[0].bb, "T", r"^is_none\(self\.invalid_suffix\)$") or any(g in ("V0:self.invalid_suffix", "!V1:self.invalid_suffix", "F:is_some(self.invalid_suffix)") for g in guard_strs(ie, emp[0].bb)))
    other_false = all(d[3]["k"] == "use" and op_int(d[3]["op"]) == 0 for d in ie.def_sites(0) if isinstance(d[3], dict))      # `Some(_) => false`
    res.check(len(emp) == 1 and expr(ie, emp[0].args[0]) == "as_str(self.utf8_prefix)" and none_edge and other_false, "R13.8", "is_empty", ie.where(),
              "invalid_suffix.is_none() && utf8_prefix.as_str().is_empty()", "ShortFlags::is_empty no longer means `no suffix and prefix exhausted`")
    itn = fx.body("<clap_lex::ShortFlags as std::iter::traits::iterator::Iterator>::next")
    res.check(len(itn.calls_to(r"ShortFlags::next_flag$")) == 1 and len(itn.calls()) == 1, "R13.8", "iterator-delegates", itn.where(), "Iterator::next = next_flag", "Iterator::next for ShortFlags no longer delegates to next_flag")
    # ---- R13.6 `x.to_str().ok_or(x)`: the Err payload is the very string whose conversion failed
    for fn_ in ("to_long", "to_value"):
        b = fx.body("clap_lex::ParsedArg::" + fn_)
        oo = b.calls_to(r"Option::ok_or$")
        res.floor("R13.6", "ok_or in " + fn_, len(oo), 1)
        for c in oo:
            a0, a1 = expr(b, c.args[0]), expr(b, c.args[1])
            m = re.fullmatch(r"to_str\((.*)\)", a0)
            res.check(m is not None and m.group(1) == a1, "R13.6", "err-payload-is-input|" + fn_, c.where(), "to_str(x).ok_or(x) with the same x (%s)" % a1[:50],
                      "%s: the non-UTF-8 fallback returns %s although the string that failed to convert is %s (decomposition no longer re-assembles)" % (fn_, a1[:60], a0[:60]))

    # ---- R13.4 PANIC
    inv = panics.inventory(fx, cl.bodies)
    res.floor("R13.4", "clap_lex bodies", len(cl.bodies), 60)
    res.floor("R13.4", "panic sites in clap_lex", len(inv), 8)
    panics.apply_audit(res, "R13.4", inv, panics.load_audit(AUDIT))
    # unsafe blocks census: all in ext.rs / next_value_os / split_nonutf8_once
    for u in cl.unsafes:
        f = u["span"][0]
        owner = cl.q[u["owner"]]
        # elsewhere: covered when everything the block calls is one of the two unsafe operations R13.1 checks per call site
        # (ext::split_at, from_encoded_bytes_unchecked) or an ordinary safe call
        ob = [b for b in cl.bodies if b.q == owner or b.q.startswith(owner + "::{closure")]
        if not ob:
            ob = cl.bodies        # the owner is a freshly extracted helper that was inlined into its callers: its calls live there, with their spans
        inside = [c for b in ob for c in b.calls() if c.sp and sp_contains(u["span"], c.sp)]
        covered = bool(inside) and any(c.is_(r"^clap_lex::ext::split_at$", r"OsStr::from_encoded_bytes_unchecked$") for c in inside) and \
            not any(c.is_(r"unchecked|from_raw|transmute|ptr::|assume_init|::offset$|zeroed$|MaybeUninit|::add$|::sub$") and not c.is_(r"OsStr::from_encoded_bytes_unchecked$") for c in inside)
        res.check(covered or owner in ("<std::ffi::os_str::OsStr as clap_lex::ext::OsStrExt>::strip_prefix", "<std::ffi::os_str::OsStr as clap_lex::ext::OsStrExt>::split_once",
                            "clap_lex::ext::split_at", "clap_lex::ShortFlags::next_value_os", "clap_lex::split_nonutf8_once"),
                  "R13.1", "unsafe-census|" + owner, sp_str(u["span"]), "unsafe block in a function covered by R13.1", "new unsafe block in %s not covered by the boundary-provenance rule" % owner)
    res.floor("R13.1", "unsafe blocks in clap_lex", len(cl.unsafes), 4)
