"""C07 — occurrences combine by action: last-wins, append-in-order, saturating count."""
import re
from rulekit import *

EXPLANATION = (
    "R7.1 Parser::react's match over ArgAction names every variant (HIR), no wildcard. R7.2 per-arm call signature read from "
    "MIR under each discriminant edge: Set/SetTrue/SetFalse call matcher.remove(id) and return argument_conflict exactly on "
    "removed && !(args_override_self || overrides.contains(self)); Append never calls remove; Count calls remove "
    "unconditionally and computes the next value with u8::saturating_add (no plain Add on the counter); every storing arm "
    "calls start_custom_arg exactly once and then push_arg_values. R7.3 cross-table agreement (tables read from the match "
    "arms): for A in {SetTrue, SetFalse} the literal react pushes for an empty occurrence = default_missing_value(A) = "
    "not default_value(A); default_value(Count) = \"0\"; takes_values(A) <=> default_num_args(A) != EMPTY. "
    "R7.4 override removal both ways: remove_overrides removes every id in arg.overrides and every present id whose overrides "
    "contain arg (all of them: collected in a loop over arg_ids, each removed); it is called from Parser::start_custom_arg "
    "only on the CommandLine edge and before matcher.start_custom_arg. R7.5 occurrence boundaries: "
    "ArgMatcher::start_custom_arg opens a value group unconditionally (MatchedArg::new_val_group pushes to vals and raw_vals "
    "unconditionally). R7.6 the override relation is stored as declared: Arg::overrides_with pushes the given id and Arg::overrides_with_all extends Arg::overrides with every given id (map(Into::into) only — no filter, so naming the argument itself keeps meaning self-override, as react's `overrides.contains(self)` expects). NOT decided: saturation at exactly 255 and the order under arbitrary interleavings."
    ' R7.6 (added): relation vectors are written only by the declared setters (writer census).'
    " R7.1 lemma (added): FlatMap keys/values change length in lock-step (ArgMatcher::remove goes through FlatMap::remove). R7.A accessor layer (lib/accessors.py): for the is_*_set / get_* accessors this property's rules name — the bool builder sets and unsets one flag on the right edges and the predicate reads that same flag; builder scope (global/local) as in audit/setting_scope.tsv; no two predicates/builders share a flag; setting/unset_setting/global_setting/is_set forward to the right flag word, the flag word is |=bit / &=!bit / &bit!=0 with bit = 1<<discriminant, _propagate_subcommand hands g_settings to the child's settings and g_settings; plain field getters return their field."
)
TRUSTED = ["rustc MIR + HIR", "clapfacts"]
ASSUMPTIONS = ["u8::saturating_add saturates at 255 (std)"]


def commandline_only(body, call):
    """The call sits on the true edge of `source == ValueSource::CommandLine` (an equality with that constant, nothing weaker)."""
    for e in body.calls_to(r"PartialEq(<[^>]*>)?>?::eq$"):
        if expr(body, e.args[0]) != "source" and expr(body, e.args[1]) != "source":
            continue
        other = e.args[1] if expr(body, e.args[0]) == "source" else e.args[0]
        br = body.call_branch(e)
        if br and "CommandLine" in (agg_variants(body, other) or [const_of(body, other) or ""]) and body.edge_dominates((br[0], br[1]), call.bb):
            return True
        if br and "CommandLine" in str(const_of(body, other)) and body.edge_dominates((br[0], br[1]), call.bb):
            return True
    return False


REL_FIELDS = ["blacklist", "overrides", "requires", "r_ifs", "r_ifs_all", "r_unless", "r_unless_all", "groups", "args", "conflicts"]


def relation_setters_accumulate(fx, res, rule):
    """Builder methods of Arg / ArgGroup declare relations by ADDING to the relation vectors (push / extend; clear only as the
    documented reset): none assigns a relation vector wholesale, so an earlier declaration is never silently replaced."""
    n_acc = 0
    for b in fx.bodies(r"^clap_builder::builder::(arg::Arg|arg_group::ArgGroup)::"):
        for f in REL_FIELDS:
            for i, s_ in writes_field(b, f):
                res.violation(rule, "relation-setter-replaces|%s|%s" % (b.q.rsplit("::", 2)[-2] + "::" + b.q.rsplit("::", 1)[1], f), "%s in %s" % (sp_str(s_["sp"]), b.q),
                              "%s assigns `%s` wholesale: relations declared earlier on the same value (conflicts, requirements, overrides, group members) are dropped" % (b.q.rsplit("::", 1)[1], f))
        for c in b.calls_to(r"Vec::push$", r"Extend(<[^>]*>)?>?::extend$"):
            m = re.search(r"self\.(\w+)$", expr(b, c.args[0]))
            if m and m.group(1) in REL_FIELDS:
                n_acc += 1
    # ... and nobody else touches them: what `a.overrides_with(b)` / `conflicts_with` / `requires*` declared is what the parser and the
    # validator read — no build step derives further relations from the declared ones
    OWN = ["blacklist", "overrides", "requires", "r_ifs", "r_ifs_all", "r_unless", "r_unless_all", "conflicts"]
    MUT = r"Vec(<[^>]*>)?::(push|extend_from_slice|insert|remove|clear|retain|append|dedup\w*|truncate|drain|swap_remove|pop)$|Extend(<[^>]*>)?>?::extend$"
    n_out = 0
    for b in fx.bodies(r"^clap_builder::"):
        if re.match(r"^clap_builder::builder::(arg::Arg|arg_group::ArgGroup)::", b.q) and b.kind != "Closure":
            continue
        top = b
        while top.kind == "Closure" and top.parent is not None:
            top = top.parent
        if re.match(r"^clap_builder::builder::(arg::Arg|arg_group::ArgGroup)::", top.q):
            continue
        for c in b.calls_to(MUT):
            e = expr(b, c.args[0])
            m = re.search(r"\.(%s)\)?$" % "|".join(OWN), e)
            if m and not re.match(r"^(deref_mut\()?(clone|to_vec|to_owned|cloned|collect)\(", e):
                n_out += 1
                res.violation(rule, "relation-written-outside-setters|%s|%s" % (top.q.rsplit("::", 1)[1], m.group(1)), c.where(),
                              "%s changes `%s` of an argument/group (%s): relations nobody declared are added (or declared ones dropped) behind the user's back — e.g. chained overrides make a mutually overriding pair override itself" % (top.q, m.group(1), c.callee_q.rsplit("::", 1)[1]))
        for f in OWN:
            for i, s_ in writes_field(b, f):
                if s_["rv"]["k"] == "agg" or (s_["rv"]["k"] == "use" and re.match(r"^(new\(\)|Vec::new|default\()", expr(b, s_["rv"]["op"]))):
                    continue        # constructing a fresh value (Arg::new / Default)
                n_out += 1
                res.violation(rule, "relation-written-outside-setters|%s|%s" % (top.q.rsplit("::", 1)[1], f), "%s in %s" % (sp_str(s_["sp"]), b.q),
                              "%s assigns `%s` of an argument/group outside the declared setters" % (top.q, f))
    res.ok(rule, "relation-setters-accumulate", "clap_builder/src/builder/{arg,arg_group}.rs", "%d push/extend sites on relation vectors, no wholesale assignment; %d writers outside the setters" % (n_acc, n_out))
    res.floor(rule, "accumulating relation setters in Arg/ArgGroup", n_acc, 18)


def removal_census(fx, res, rule):
    """Presence records may only be removed for overridden arguments: every ArgMatcher::remove reachable from the parser
    removes an id taken from `arg.overrides` (forward) or from the collected list of present args whose `overrides`
    contain this arg (backward).  Shared with C03 (a removed group/arg record silently disables its relations)."""
    n = 0
    kinds = []
    for b in fx.bodies(r"^clap_builder::parser::(parser|validator)::"):
        for c in b.calls_to(r"ArgMatcher::remove$"):
            n += 1
            e = expr(b, c.args[1])
            top = b
            while top.kind == "Closure" and top.parent is not None:
                top = top.parent
            fn_ = top.q.rsplit("::", 1)[1]
            if b is not top:
                # iterator form: xs.for_each(|x| matcher.remove(x)) — the removed id is the element of the iterated collection
                feed = closure_feed(fx, b)
                if feed and feed[1].is_(r"Iterator::(for_each|map|inspect)$") and len(b.locals) > 2 and e in (b.locals[2][1], "arg2"):
                    e = "next(into_iter(%s))#Some.0" % re.sub(r"^(into_)?iter\((.*)\)$", r"\2", feed[2])
            okf = re.fullmatch(r"next\(into_iter\((iter\()?arg\.overrides\)?\)\)#Some\.0", e) is not None
            okb_ = False
            m = re.fullmatch(r"next\(into_iter\((new\(\)|with_capacity\([^()]*\))\)\)#Some\.0", e)   # a locally collected Vec
            if not okf and m and fn_ == "remove_overrides":
                # the iterated vector must be filled only by pushes guarded by `<other>.overrides.contains(arg.id)`
                pushes = [p for t in tree(top) for p in t.calls_to(r"Vec::push$")]
                okb_ = bool(pushes) and all(any(re.match(r"^T:contains\(.*\.overrides,get_id\(arg\)\)$", g) for g in guard_strs(p.body, p.bb)) for p in pushes)
            m2 = re.fullmatch(r"next\(into_iter\(collect\((.*)\)\)\)#Some\.0", e)
            if not okf and not okb_ and m2 and fn_ == "remove_overrides" and re.match(r"^(map|filter|filter_map)\(", m2.group(1)) and "arg_ids(matcher)" in m2.group(1):
                # iterator-chain form of the same collection: matcher.arg_ids().filter_map(find).filter(|o| o.overrides.contains(arg.id)).map(get_id).collect()
                # every element passed a filter whose closure is exactly that containment test, and no other filter drops elements
                flt = [x for x in top.calls_to(r"Iterator::filter$") if expr(top, x.dest) and expr(top, x.dest) in m2.group(1)]
                tests = [strip_transparent(expr(cb_, 0)) for x in flt for cb_ in own_closures(fx, x)]
                okb_ = bool(tests) and all(re.fullmatch(r"contains\([\w.]+\.overrides,get_id\((arg|arg1\.0)\)\)", t_) for t_ in tests)
            if fn_ == "react" and e == "get_id(arg)":
                # the reacting argument's own record is replaced by the occurrence being recorded (Set/SetTrue/SetFalse/Count)
                sc_ = [x for x in b.calls_to(r"Parser::start_custom_arg$") if x.bb in b.reachable(c.target if c.target is not None else c.bb)]
                res.check(bool(sc_), rule, "removal|react|own-record", c.where(), "own record replaced by the new occurrence", "react removes the argument's record without recording the new occurrence")
                continue
            kinds.append((fn_, "forward" if okf else "backward" if okb_ else "other"))
            res.check(fn_ == "remove_overrides" and (okf or okb_), rule, "removal|%s|%s" % (fn_, "forward" if okf else "backward" if okb_ else "other"), c.where(),
                      "removes an overridden / overriding argument's record", "ArgMatcher::remove(%s) in %s: a presence record is removed for something that is not an overridden argument (relations declared on it are silently disabled)" % (e[:80], fn_))
    res.floor(rule, "ArgMatcher::remove call sites in the parser", n, 2)
    return kinds


def run(ctx):
    fx, res = ctx.fx, ctx.res
    import lemmas
    lemmas.flat_map_lockstep(fx, res, "R7.1")     # ArgMatcher::remove (Set / SetTrue / Count replacement, remove_overrides) goes through FlatMap::remove
    rc = fx.body("clap_builder::parser::parser::Parser::react")
    acts = enum_variants(fx, "builder::action::ArgAction")
    res.floor("R7.1", "ArgAction variants", len(acts), 9)
    ms = [m for m in hir_matches_in(rc) if "ArgAction" in m["scrut_ty"]]
    res.floor("R7.1", "match over ArgAction in react", len(ms), 1)
    for m in ms:
        pats = [a["pat"] for a in m["arms"]]
        named = set()
        wild = False
        for p in pats:
            for alt in p.split("|"):
                if alt.strip() in ("_",) or alt.strip().startswith("$"):
                    wild = True
                else:
                    named.add(alt.strip().rsplit("::", 1)[-1].split("(")[0].split("{")[0])
        res.check(not wild and named == set(acts), "R7.1", "exhaustive-no-wildcard", sp_str(m["span"]), "one arm per ArgAction variant: %s" % sorted(named),
                  "react's match over ArgAction has a wildcard arm or misses variants (named %s)" % sorted(named))

    def arm_of(c):
        for g in guard_strs(rc, c.bb):
            mm = re.match(r"^V(\d+):get_action\(", g)
            if mm:
                return acts[int(mm.group(1))]
        return None
    by_arm = {}
    for c in rc.calls():
        if sp_macro(c.sp):
            continue
        a = arm_of(c)
        if a:
            by_arm.setdefault(a, []).append(c)
    # ---- R7.2
    for a in ("Set", "SetTrue", "SetFalse"):
        cs = by_arm.get(a, [])
        rem = [c for c in cs if c.is_(r"ArgMatcher::remove$")]
        conf = [c for c in cs if c.is_(r"error::Error::argument_conflict$")]
        res.check(len(rem) == 1 and re.fullmatch(r"get_id\(arg\)", expr(rc, rem[0].args[1])) is not None, "R7.2", "remove|" + a, rc.where(), "%s removes the previous occurrence of the same arg" % a,
                  "%s arm: expected exactly one matcher.remove(arg.get_id()), found %s" % (a, [expr(rc, c.args[1]) for c in rem]))
        okc = len(conf) == 1
        if okc:
            gl = bool_facts(rc, conf[0].bb)
            okc = any(p == "T" and re.match(r"^remove\(matcher,get_id\(arg\)\)$", e) for p, e in gl) and \
                any(p == "F" and re.match(r"^is_args_override_self\(", e) for p, e in gl) and \
                any(p == "F" and re.match(r"^contains\(arg\.overrides,get_id\(arg\)\)$", e) for p, e in gl)
            # and nothing else: exactly these three guards after the arm selection
            extra = [(p, e) for p, e in gl if not re.match(r"^(remove\(|is_args_override_self\(|contains\(arg\.overrides|eq\(source|Eq\(|matches|discr)", e) and "source" not in e and "ident" not in e]
            okc = okc and not [x for x in extra if "resolve_pending" not in x[1] and "verify_num_args" not in x[1] and "get_value_delimiter" not in x[1] and "is_empty" not in x[1] and "is_dont_delimit" not in x[1] and "trailing_idx" not in x[1] and "contains(" not in x[1]]
        res.check(okc, "R7.2", "conflict-condition|" + a, conf[0].where() if conf else rc.where(), "%s: repeat is a conflict exactly when removed && !(args_override_self || overrides self)" % a,
                  "%s arm raises/suppresses the self-conflict under a different condition: %s" % (a, bool_facts(rc, conf[0].bb)[-4:] if conf else "no conflict error"))
    cs = by_arm.get("Append", [])
    res.check(not [c for c in cs if c.is_(r"ArgMatcher::remove$")], "R7.2", "append-keeps-earlier", rc.where(), "Append never removes earlier occurrences", "Append arm removes earlier occurrences")
    cs = by_arm.get("Count", [])
    rem = [c for c in cs if c.is_(r"ArgMatcher::remove$")]
    sat = [c for c in cs if c.is_(r"u8::saturating_add$")]
    okr = len(rem) == 1 and not any(re.search(r"remove\(", e) for p, e in bool_facts(rc, rem[0].bb))
    res.check(okr, "R7.2", "count-replaces", rc.where(), "Count replaces the stored count unconditionally", "Count arm does not replace the stored value unconditionally")
    oks = len(sat) == 1 and op_int(sat[0].args[1]) == 1
    arith = []
    for i, bl in enumerate(rc.blocks):
        t = bl["term"]
        if t["k"] == "assign":
            pass
        if t["k"] == "assert" and t["msg"].startswith("Overflow") and t.get("ty") == "u8":
            arith.append(i)
    res.check(oks and not arith, "R7.2", "count-saturates", sat[0].where() if sat else rc.where(), "next count = existing.saturating_add(1)", "Count arm no longer uses u8::saturating_add(1) (overflow would panic or wrap)")
    if sat:
        e = expr(rc, sat[0].args[0])
        res.check(re.search(r"unwrap_or\(get_one\(.*get_id\(arg\)", e) is not None, "R7.2", "count-reads-own-value", sat[0].where(), "existing count read from the same arg (default 0)", "Count reads its previous value from %s" % e[:100])
    for a in ("Set", "Append", "SetTrue", "SetFalse", "Count"):
        cs = by_arm.get(a, [])
        st = [c for c in cs if c.is_(r"Parser::start_custom_arg$")]
        pv = [c for c in cs if c.is_(r"Parser::push_arg_values$")]
        ok = len(st) == 1 and len(pv) == 1 and rc.block_dominates(st[0].bb, pv[0].bb)
        res.check(ok, "R7.2", "one-occurrence|" + a, rc.where(), "%s: start_custom_arg once, then push_arg_values" % a, "%s arm does not open exactly one occurrence before storing values" % a)
        rm = [c for c in cs if c.is_(r"ArgMatcher::remove$")]
        if rm and st:
            res.check(rc.block_dominates(rm[0].bb, st[0].bb), "R7.2", "remove-before-start|" + a, rc.where(), "old occurrence removed before the new one starts", "%s removes after starting the new occurrence" % a)

    # ---- R7.3 tables
    tb = {}
    for fn_ in ("default_value", "default_missing_value", "takes_values", "default_num_args"):
        b = fx.body("clap_builder::builder::action::ArgAction::" + fn_)
        av = arm_values(b)
        tb[fn_] = {acts[k]: v for k, v in av.items() if isinstance(k, int) and k < len(acts)}
        res.check(len(tb[fn_]) == len(acts) and "otherwise" not in av, "R7.3", "table-complete|" + fn_, b.where(), "%s: %s" % (fn_, tb[fn_]), "%s does not define every action explicitly: %s" % (fn_, av))

    def lit(v):
        mm = re.fullmatch(r"Some\(new\('(.*)'\)\)", v or "")
        return mm.group(1) if mm else None
    pushed = {}
    for a in ("SetTrue", "SetFalse"):
        cs = by_arm.get(a, [])
        frm = [c for c in cs if c.is_(r"OsString as std::convert::From<[^>]*>>::from$|OsString.*::from$")]
        vals = set(const_of(rc, c.args[0]) for c in frm)
        pushed[a] = vals
        want = {"SetTrue": "true", "SetFalse": "false"}[a]
        res.check(vals == {want}, "R7.3", "react-literal|" + a, rc.where(), "%s pushes %r for an empty occurrence" % (a, want), "%s arm pushes %s for an empty occurrence, expected %r" % (a, vals, want))
        dm = lit(tb["default_missing_value"].get(a))
        dv = lit(tb["default_value"].get(a))
        res.check(dm == want and dv == {"true": "false", "false": "true"}[want], "R7.3", "agree|" + a, "builder/action.rs", "default_missing_value(%s)=%r, default_value(%s)=%r" % (a, dm, a, dv),
                  "tables disagree for %s: react pushes %r, default_missing_value=%r, default_value=%r (must be the opposite)" % (a, want, dm, dv))
    res.check(lit(tb["default_value"].get("Count")) == "0", "R7.3", "count-default-0", "builder/action.rs", "default_value(Count) = \"0\"", "default_value(Count) = %r" % tb["default_value"].get("Count"))
    for a in acts:
        tv = tb["takes_values"].get(a)
        dn = tb["default_num_args"].get(a, "")
        res.check((tv == "1") == (not dn.endswith("EMPTY")), "R7.3", "takes_values-vs-num_args|" + a, "builder/action.rs", "takes_values(%s)=%s, default_num_args=%s" % (a, tv, dn.rsplit("::", 1)[-1]),
                  "takes_values(%s)=%s but default_num_args(%s)=%s" % (a, tv, a, dn.rsplit("::", 1)[-1]))

    # ---- R7.4 override removal
    ro = fx.body("clap_builder::parser::parser::Parser::remove_overrides")
    kinds = removal_census(fx, res, "R7.4")
    ro_kinds = [k for f_, k in kinds if f_ == "remove_overrides"]
    res.check("forward" in ro_kinds, "R7.4", "forward", ro.where(), "every id in arg.overrides is removed", "remove_overrides no longer removes the ids listed in arg.overrides")
    # backward: loop over matcher.arg_ids(), collect those whose overrides contain arg, remove each collected (not just the first)
    fm = [c for t in tree(ro) for c in t.calls_to(r"Iterator::find_map$", r"Iterator::find$", r"\[T\]::first$", r"Iterator::take$")]
    okb = "backward" in ro_kinds and bool([c for t in tree(ro) for c in t.calls_to(r"ArgMatcher::arg_ids$")]) and not fm
    res.check(okb, "R7.4", "backward-all", ro.where(), "every present arg whose overrides contain this arg is collected and removed",
              "remove_overrides no longer removes ALL present args that override this one (reverse direction): removal kinds %s" % ro_kinds)
    psc = fx.body("clap_builder::parser::parser::Parser::start_custom_arg")
    r1 = psc.calls_to(r"Parser::remove_overrides$")
    r2 = psc.calls_to(r"ArgMatcher::start_custom_arg$")
    res.check(len(r1) == 1 and len(r2) == 1 and psc.reaches(r1[0].bb, r2[0].bb) and not psc.reaches(r2[0].bb, r1[0].bb), "R7.4", "overrides-before-start", psc.where(),
              "remove_overrides runs before the new occurrence is recorded", "override removal no longer precedes matcher.start_custom_arg")
    if r1:
        res.check(commandline_only(psc, r1[0]), "R7.4", "overrides-only-commandline", r1[0].where(), "only command-line occurrences remove overrides", "remove_overrides runs for env/default sources (guard %s)" % guard_strs(psc, r1[0].bb))
    others = [c for b in fx.bodies(r"^clap_builder::") for c in b.calls_to(r"Parser::remove_overrides$") if b is not psc]
    res.check(not others, "R7.4", "single-caller", psc.where(), "remove_overrides has no other caller", "remove_overrides also called from %s" % [c.body.q for c in others])

    # ---- R7.5 occurrence boundaries
    asc = fx.body("clap_builder::parser::arg_matcher::ArgMatcher::start_custom_arg")
    nv = asc.calls_to(r"MatchedArg::new_val_group$")
    okn = len(nv) == 1 and nv[0].bb in asc.reachable(0) and not asc.must_pass([nv[0].bb])
    res.check(okn, "R7.5", "group-per-occurrence", asc.where(), "every occurrence opens a new value group on every path", "ArgMatcher::start_custom_arg opens a value group only conditionally: value-less occurrences merge with the next")
    ng = fx.body("clap_builder::parser::matches::matched_arg::MatchedArg::new_val_group")
    pu = ng.calls_to(r"Vec::push$")
    okp = len(pu) == 2 and not ng.must_pass([pu[0].bb]) and not ng.must_pass([pu[1].bb]) and not [1 for bl in ng.blocks if bl["term"]["k"] == "switch"]
    res.check(okp, "R7.5", "new_val_group-unconditional", ng.where(), "new_val_group pushes an empty group to vals and raw_vals unconditionally", "MatchedArg::new_val_group pushes conditionally or not to both vectors")


    # ---- R7.6 builder setters of the override relation store every id they are given
    owa = fx.body("clap_builder::builder::arg::Arg::overrides_with_all")
    ex = [c for c in owa.calls_to(r"Extend(<[^>]*>)?>?::extend$") if expr(owa, c.args[0]) == "self.overrides"]
    # loop form: for name in names { self.overrides.push(name.into()) } — unconditional push of every element
    pl_ = [c for c in owa.calls_to(r"Vec(<[^>]*>)?::push$") if expr(owa, c.args[0]) == "self.overrides"]
    if not ex and pl_:
        for c in pl_:
            e = expr(owa, c.args[1])
            cond = [g for g in guard_strs(owa, c.bb) if re.match(r"^[TF]:", g)]
            res.check(re.fullmatch(r"into\(next\(into_iter\(names\)\)#Some\.0\)", e) is not None and not cond, "R7.6", "overrides_with_all-stores-all", c.where(), "for name in names { overrides.push(name.into()) }",
                      "overrides_with_all stores %s under %s: some of the given ids are dropped or rewritten" % (e[:80], cond))
    elif not ex:
        res.violation("R7.6", "overrides_with_all-stores-all", owa.where(), "overrides_with_all no longer extends Arg::overrides")
    for c in ex:
        e = expr(owa, c.args[1])
        res.check(re.fullmatch(r"map\(into_iter\(names\),fn:(\w+::)*into\)", e) is not None, "R7.6", "overrides_with_all-stores-all", c.where(), "overrides.extend(names.map(Into::into))",
                  "overrides_with_all stores %s: some of the given ids (e.g. the argument's own id = self-override) are dropped or rewritten" % e[:100])
    ow = fx.body("clap_builder::builder::arg::Arg::overrides_with")
    pu = [c for c in ow.calls_to(r"Vec::push$") if expr(ow, c.args[0]) == "self.overrides"]
    res.check(len(pu) == 1 and expr(ow, pu[0].args[1]) == "into_option(into_resettable(arg_id))#Some.0" and not [g for g in guard_strs(ow, pu[0].bb) if re.match(r"^[TF]:", g)], "R7.6", "overrides_with-stores", ow.where(),
              "overrides.push(given id)", "overrides_with no longer stores the id it is given unconditionally")

    relation_setters_accumulate(fx, res, "R7.6")

    # ---- R7.7 args_override_self / the global settings machinery reach every subcommand (shared with C05 R5.8)
    from rules.c05 import global_setters
    global_setters(fx, res, "R7.7", ["args_override_self"])
    pg = fx.body("clap_builder::builder::command::Command::_propagate_subcommand")
    wrote = dict((f, expr(pg, s_["rv"]["op"])) for f in ("settings", "g_settings") for i, s_ in writes_field(pg, f) if s_["rv"]["k"] == "use")
    import accessors
    hd_ = accessors.g_settings_handed_down(fx)
    res.check(hd_["settings"][0] and hd_["g_settings"][0], "R7.7", "global-settings-handed-down", pg.where(),
              "global settings handed down at every depth", "_propagate_subcommand writes %s" % wrote)
