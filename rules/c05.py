"""C05 — everything after `--` is delivered verbatim as positional values."""
import re
from rulekit import *

EXPLANATION = (
    "R5.1 interpretation is guarded: in Parser::parse every call that classifies a token by its shape — "
    "possible_subcommand, ParsedArg::{is_escape,to_long,to_short,is_long,is_short}, parse_long_arg, parse_short_arg, "
    "is_new_arg, parse_help_subcommand — applied to the current or the peeked next token is dominated by the false edge "
    "of the `trailing_values` flag (edge-dominance on MIR). Declared exceptions: check_terminator (value terminators are a "
    "documented part of the positional's own grammar) and match_arg_error (only shapes the error once no positional can "
    "absorb the token). R5.2 the flag is monotone: it is assigned false only before the loop, every other write is true "
    "(`--` seen / trailing_var_arg). R5.3 tail values are pushed verbatim (to_value_os().to_owned(), no lossy conversion) "
    "and R5.4 the dont_delimit_trailing_values exemption in react covers every value index at or after trailing_idx (a "
    "threshold comparison, not equality with one index); R5.5 values injected for an empty occurrence (default_missing_vals) are not treated as trailing (trailing_idx reset before the injection). R5.6 positional counter after the escape: the counter jumps to the last positional only on the trailing_values edge; the allow_missing_positional look-ahead (`missing_pos`) is disabled once trailing_values holds; every rejection of a token in Parser::parse as an unknown argument sits on the !trailing_values edge (tail tokens are never `unknown`, in particular a `last` positional accepts them). `contains_last` is existential over all arguments (any(get_arguments|get_positionals, is_last_set)), not a property of one particular positional. R5.7 the trailing index is first-wins: ArgMatcher::pending_values_mut records trailing_idx only if none is recorded yet (Option::get_or_insert / a write guarded by is_none) with the current number of pending values, on the trailing_values edge — it marks where the tail STARTS. R5.8 dont_delimit_trailing_values is a global setting and _propagate_subcommand hands global settings down at every depth. R5.9 the only thing that can make `--` a value is allow_hyphen_values of the pending argument. NOT decided: the rest of the positional-counter arithmetic, byte equality for all tails."
    " R5.A accessor layer (lib/accessors.py): for the is_*_set / get_* accessors this property's rules name — the bool builder sets and unsets one flag on the right edges and the predicate reads that same flag; builder scope (global/local) as in audit/setting_scope.tsv; no two predicates/builders share a flag; setting/unset_setting/global_setting/is_set forward to the right flag word, the flag word is |=bit / &=!bit / &bit!=0 with bit = 1<<discriminant, _propagate_subcommand hands g_settings to the child's settings and g_settings; plain field getters return their field."
)
TRUSTED = ["rustc MIR", "clapfacts", "edge-dominance on the MIR CFG"]
ASSUMPTIONS = ["PendingArg::trailing_idx is handed unchanged to react by resolve_pending (checked: C02/C06 react call-site census)"]

SHAPE = (r"clap_builder::parser::parser::Parser::(possible_subcommand|parse_long_arg|parse_short_arg|is_new_arg|parse_help_subcommand|possible_long_flag_subcommand)$|"
         r"clap_lex::ParsedArg::(is_escape|to_long|to_short|is_long|is_short|is_negative_number)$")
EXEMPT = r"Parser::(check_terminator|match_arg_error)$"
LOSSY = r"(to_string_lossy|OsStr::to_str|to_lowercase|to_uppercase|str::trim|str::replace|to_ascii)"


def global_setters(fx, res, rule, names):
    """The Command setters documented as applying to the whole tree store a GLOBAL setting (global_setting / unset_global_setting):
    a plain setting would stop at the command it is called on."""
    for nm in names:
        b = fx.body("clap_builder::builder::command::Command::" + nm)
        used = sorted(set(c.callee_q.rsplit("::", 1)[1] for c in b.calls() if c.callee_q and re.search(r"Command::(un)?set(_global)?_setting$|Command::(global_)?setting$", c.callee_q)))
        res.check(used == ["global_setting", "unset_global_setting"], rule, "global-setter|" + nm, b.where(), "%s sets/unsets a global setting" % nm,
                  "Command::%s uses %s: the setting no longer reaches subcommands although it is documented to" % (nm, used))


def run(ctx):
    fx, res = ctx.fx, ctx.res
    pp = fx.body("clap_builder::parser::parser::Parser::parse")
    tv = pp.locals_named("trailing_values")
    res.floor("R5.1", "`trailing_values` flag", len(tv), 1)
    outer = tv[0]
    n = 0
    for bb in tree(pp):
        for c in bb.calls_to(SHAPE):
            if sp_macro(c.sp):
                continue
            n += 1
            name = c.callee_q.rsplit("::", 1)[1]
            if bb is pp:
                ok = any(p == "F" and e == "trailing_values" for p, e in bool_facts(pp, c.bb))
                where = c.where()
            else:
                # closure: judged at the place the closure is used
                mk = [cc for cc in pp.calls() if bb.q in cc.closures]
                ok = bool(mk) and all(any(p == "F" and e == "trailing_values" for p, e in bool_facts(pp, cc.bb)) for cc in mk)
                where = c.where()
            tok = expr(bb, c.args[1] if name in ("possible_subcommand", "is_new_arg") and len(c.args) > 1 else c.args[0])
            which = "next-token" if "peek(" in tok else "current-token"
            res.check(ok, "R5.1", "guarded|%s|%s" % (name, which), where, "%s(%s) only when !trailing_values" % (name, which),
                      "%s is applied to the %s although `--` may already have been seen (not dominated by !trailing_values): after `--` a token shaped like a flag/subcommand changes how it is parsed" % (name, which))
    res.floor("R5.1", "shape-classifying calls in Parser::parse", n, 9)
    for c in pp.calls_to(EXEMPT):
        res.ok("R5.1", "exempt|%s" % c.callee_q.rsplit("::", 1)[1], c.where(), "declared exception")

    # ---- R5.2 monotone flag
    writes = [(i, s) for i, j, s in pp.stmts() if s["k"] == "assign" and s["place"] == outer]
    res.floor("R5.2", "writes of trailing_values", len(writes), 3)
    loop_head = pp.calls_to(r"clap_lex::RawArgs::next$")
    res.floor("R5.2", "loop head (raw_args.next)", len(loop_head), 1)
    for i, s in writes:
        v = op_int(s["rv"]["op"]) if s["rv"]["k"] == "use" else None
        if v == 0:
            before_loop = pp.block_dominates(i, loop_head[0].bb) and i not in pp.reachable(loop_head[0].target if loop_head[0].target is not None else 0)
            res.check(before_loop, "R5.2", "reset|" + ("pre-loop" if before_loop else "in-loop"), "%s in %s" % (sp_str(s["sp"]), pp.q), "initialised false before the loop",
                      "trailing_values is reset to false inside the parse loop: tokens after `--` would be interpreted again")
        elif v == 1:
            res.ok("R5.2", "set-true", "%s in %s" % (sp_str(s["sp"]), pp.q), "set to true")
        else:
            res.violation("R5.2", "non-constant-write", "%s in %s" % (sp_str(s["sp"]), pp.q), "trailing_values assigned a non-constant value: %s" % s["rv"])
    # the true write after `--` is on the is_escape true edge
    for i, s in writes:
        if s["rv"]["k"] == "use" and op_int(s["rv"]["op"]) == 1:
            gl = guard_strs(pp, i)
            if any(g.startswith("T:is_escape(") for g in gl):
                res.ok("R5.2", "escape-sets-flag", "%s in %s" % (sp_str(s["sp"]), pp.q), "`--` sets trailing_values")
                st = [c for c in pp.calls_to(r"ArgMatcher::start_trailing$")]
                res.check(bool(st) and any(any(g.startswith("T:is_escape(") for g in guard_strs(pp, c.bb)) for c in st), "R5.2", "escape-start_trailing", pp.where(), "start_trailing() called on `--`", "`--` no longer marks the pending argument's trailing index")

    # ---- R5.3 verbatim storage of positional values
    pushes = [c for c in pp.calls_to(r"std::vec::Vec::push$") if re.search(r"pending_values_mut\(", expr(pp, c.args[0]))]
    res.floor("R5.3", "pushes into pending values", len(pushes), 2)
    for c in pushes:
        e = expr(pp, c.args[1])
        ok = re.fullmatch(r"to_owned\(to_value_os\(.*\)\)", e) is not None and not re.search(LOSSY, e)
        res.check(ok, "R5.3", "verbatim-push|" + ("positional" if "Index" in expr(pp, c.args[0]) else "option-value"), c.where(), "pushed %s" % e[:80],
                  "value stored after transformation (%s): tail tokens no longer reach the positional byte-for-byte" % e[:120])

    # ---- R5.4 trailing exemption from delimiter splitting is a threshold
    rc = fx.body("clap_builder::parser::parser::Parser::react")
    ti = rc.locals_named("trailing_idx")
    splits = rc.calls_to(r"OsStrExt>?::split$")
    if not splits and rc.calls_to(r"Arg::get_value_delimiter$"):
        res.note("R5.4: react reads the value delimiter but does not call OsStrExt::split (reported by C02 R2.4 split-pieces-all-kept); the threshold rule has nothing to look at")
    else:
        res.floor("R5.4", "delimiter split in react", len(splits), 1)
    # comparisons that involve trailing_idx
    cmps = []
    for c in rc.calls():
        es = [expr(rc, a) for a in c.args]
        if any(re.search(r"\btrailing_idx\b", e) for e in es) and (c.is_(r"PartialEq>?::(eq|ne)$", r"PartialOrd>?::(lt|le|gt|ge)$", r"Option::(is_some_and|map_or|is_none_or|is_some|is_none)$")):
            cmps.append((c, es))
    res.floor("R5.4", "comparisons with trailing_idx in react", len(cmps), 1)
    for c, es in cmps:
        other = [e for e in es if not re.search(r"\btrailing_idx\b", e)]
        o = other[0] if other else ""
        name = c.callee_q.rsplit("::", 1)[1]
        if not o and name in ("eq", "ne"):
            o = str(const_of(rc, [a for a, e in zip(c.args, es) if not re.search(r"\btrailing_idx\b", e)][0]) or "") if len(c.args) == 2 else ""
        if name in ("is_some", "is_none") and expr(rc, c.args[0]) == "trailing_idx" and (has_bool(rc, c.bb, "T", r"^is_dont_delimit_trailing_values_set\(") or rc.call_branch(c)):
            # a bare presence test decides about ALL values of the occurrence, also those given before `--`
            spl_ = rc.calls_to(r"OsStrExt>?::split$")
            br = rc.call_branch(c)
            skips = br and spl_ and all(s_.bb not in rc.reachable(br[1] if name == "is_some" else br[2]) for s_ in spl_)
            res.check(not skips, "R5.4", "whole-tail-shortcut", c.where(), "presence of a trailing index does not by itself skip splitting",
                      "react skips delimiter splitting for the whole occurrence as soon as it has ANY trailing index (trailing_idx.%s()): values given before `--` are no longer split although they would be without the tail" % name)
            continue
        if name in ("eq", "ne") and expr(rc, c.args[0]) == "trailing_idx":
            pay = agg_payloads(rc, c.args[1])
            res.check(pay == [("Some", [0])], "R5.4", "whole-tail-shortcut", c.where(), "trailing_idx == Some(0): the whole value list is trailing",
                      "the no-split shortcut compares trailing_idx with %s, not Some(0): values before the start of the tail skip delimiter splitting" % pay)
            continue
        per_index = re.search(r"enumerate\(", o) is not None or re.search(r"#Some\.0\.0", o) is not None
        if per_index:
            res.check(name not in ("eq", "ne"), "R5.4", "trailing-exemption-threshold", c.where(),
                      "per-value exemption uses an ordering test (%s)" % name,
                      "with dont_delimit_trailing_values only the value whose index EQUALS trailing_idx is exempt from delimiter splitting (trailing_idx %s %s); later tail values are still split at the delimiter" % (name, o[:60]))

    # ---- R5.5 values injected for an empty occurrence (default_missing_vals) are not trailing values:
    # react resets trailing_idx to None before extending raw_vals with them
    ext = [c for c in rc.calls_to(r"Extend(<[^>]*>)?>?::extend$") if re.search(r"default_missing_vals", expr(rc, c.args[1]))]
    res.floor("R5.5", "default_missing_vals extension in react", len(ext), 1)
    resets = [i for i, j, s_ in rc.stmts() if s_["k"] == "assign" and s_["place"] in ti and
              ((s_["rv"]["k"] == "agg" and s_["rv"].get("variant") == "None") or (s_["rv"]["k"] == "use" and "None" in agg_variants(rc, s_["rv"]["op"])))]
    for c in ext:
        okr = any(rc.block_dominates(i, c.bb) and has_bool(rc, i, "T", r"^is_empty\(") for i in resets)
        res.check(okr, "R5.5", "default-missing-not-trailing", c.where(), "trailing_idx = None before injecting default_missing_vals",
                  "default-missing values are injected while the occurrence still carries its trailing index: with dont_delimit_trailing_values an option followed directly by `--` keeps its default-missing value unsplit")


    # ---- R5.6 positional counter / rejection after the escape
    pcs = pp.locals_named("pos_counter")
    jumps = []
    for i, j, s_ in pp.stmts():
        if s_["k"] == "assign" and s_["rv"]["k"] == "use" and isinstance(s_["place"], int):
            e = expr(pp, s_["rv"]["op"])
            if re.match(r"^count\(filter\(keys\(get_keymap\(self\.cmd\)\)", e) and (s_["place"] in pcs or any(d[0] for l in pcs for d in pp.def_sites(l) if isinstance(d[3], dict) and d[3]["k"] == "use" and d[3]["op"].get("mv", d[3]["op"].get("cp")) == s_["place"])):
                jumps.append(i)
    res.floor("R5.6", "jump of pos_counter to the last positional", len(jumps), 1)
    for i in jumps:
        res.check(has_bool(pp, i, "T", r"^trailing_values$"), "R5.6", "jump-to-last-only-after-escape", "%s bb%d" % (pp.where(), i), "pos_counter := #positionals only when trailing_values",
                  "the positional counter jumps to the last positional without `--` having been seen (guards %s)" % [g for g in guard_strs(pp, i) if re.match(r"^[TF]:", g)])
    mps = pp.locals_named("missing_pos")
    defs = [d for l in mps for d in pp.def_sites(l) if isinstance(d[3], dict) and not (d[3]["k"] == "use" and op_int(d[3]["op"]) == 0)]
    res.floor("R5.6", "definition of missing_pos", len(defs), 1)
    for d in defs:
        rv = d[3]
        okm = rv["k"] == "unop" and rv["op"] == "Not" and expr(pp, rv["a"]) == "trailing_values" and has_bool(pp, d[0], "T", r"^is_allow_missing_positional_set\(self\.cmd\)$")
        res.check(okm, "R5.6", "missing-pos-lookahead-off-after-escape", "%s bb%d" % (pp.where(), d[0]), "missing_pos = allow_missing_positional && second-to-last && !trailing_values",
                  "the allow_missing_positional look-ahead stays active after `--` (missing_pos no longer ends in && !trailing_values)")
    ua = pp.calls_to(r"error::Error::unknown_argument$")
    res.floor("R5.6", "unknown_argument sites in Parser::parse", len(ua), 2)
    for c in ua:
        res.check(has_bool(pp, c.bb, "F", r"^trailing_values$"), "R5.6", "no-unknown-argument-after-escape|" + ("last" if has_bool(pp, c.bb, "T", r"^is_last_set\(") else "other"), c.where(),
                  "unknown-argument rejection only before `--`", "a token after `--` can be rejected as an unknown argument (guards %s)" % [g[:60] for g in guard_strs(pp, c.bb) if re.match(r"^[TF]:", g)])

    cls = pp.locals_named("contains_last")
    res.floor("R5.6", "`contains_last` local in Parser::parse", len(cls), 1)
    for l in cls:
        for d in pp.def_sites(l):
            c = d[3]
            if isinstance(c, dict):
                continue
            e = expr(pp, {"cp": l})
            okq = c.callee_q.endswith("::any") and re.fullmatch(r"any\(get_(arguments|positionals)\(self\.cmd\),closure\(\)\)", e) is not None and \
                any(expr(cb, 0) == "is_last_set(arg2)" or (cb.calls_to(r"Arg::is_last_set$") and not expr(cb, 0).startswith("Not(")) for cb in closure_bodies(fx, c))
            res.check(okq, "R5.6", "contains-last-is-existential", c.where(), "contains_last = any argument has last(true)",
                      "contains_last is computed as %s: a `last` positional that is not the one inspected is missed and the jump after `--` does not happen" % e[:90])

    # ---- R5.7 first-wins trailing index
    pv = fx.body("clap_builder::parser::arg_matcher::ArgMatcher::pending_values_mut")
    goi = [c for c in pv.calls_to(r"Option::get_or_insert$") if re.search(r"\.trailing_idx$", expr(pv, c.args[0]))]
    wti = writes_field(pv, "trailing_idx")
    guarded_w = [i for i, s_ in wti if has_bool(pv, i, "T", r"^is_none\(.*\.trailing_idx\)$")]
    if not goi and not wti:
        res.violation("R5.7", "trailing-index-first-wins", pv.where(), "pending_values_mut no longer records where the trailing values start")
    else:
        bad = [i for i, s_ in wti if i not in guarded_w]
        res.check(not bad, "R5.7", "trailing-index-first-wins", pv.where(), "trailing_idx recorded once (get_or_insert / guarded by is_none)",
                  "pending_values_mut overwrites trailing_idx on every trailing value: it ends up marking the LAST tail value, so earlier tail values are split at the delimiter despite dont_delimit_trailing_values")
    for c in goi:
        res.check(has_bool(pv, c.bb, "T", r"^trailing_values$") and re.fullmatch(r"len\(.*\.raw_vals\)", expr(pv, c.args[1])) is not None, "R5.7", "trailing-index-value", c.where(),
                  "trailing_idx = number of values already pending, only when trailing_values", "trailing_idx recorded as %s under %s" % (expr(pv, c.args[1])[:60], guard_strs(pv, c.bb)))

    # ---- R5.8 the trailing exemption holds at every level: the setting is global and global settings are handed down at every depth
    global_setters(fx, res, "R5.8", ["dont_delimit_trailing_values"])
    pg = fx.body("clap_builder::builder::command::Command::_propagate_subcommand")
    wrote = {}
    for f in ("settings", "g_settings"):
        for i, s_ in writes_field(pg, f):
            if s_["rv"]["k"] == "use":
                wrote[f] = expr(pg, s_["rv"]["op"])
    import accessors
    hd_ = accessors.g_settings_handed_down(fx)
    res.check(hd_["settings"][0] and hd_["g_settings"][0], "R5.8", "global-settings-handed-down", pg.where(),
              "a subcommand receives the parent's global settings both as settings and as its own global settings", "_propagate_subcommand writes %s: global settings stop at the first subcommand level" % wrote)
    # ---- R5.9 `--` is a value only for a pending argument that accepts hyphen values (nothing else exempts it from being the escape)
    escq = sorted(set(c.callee_q.rsplit("::", 1)[1] for c in pp.calls() if not sp_macro(c.sp) and c.callee_q and c.callee_q.startswith("clap_builder::") and has_bool(pp, c.bb, "T", r"^is_escape\(")))
    res.check(set(escq) <= {"index", "is_allow_hyphen_values_set", "start_trailing"} and "is_allow_hyphen_values_set" in escq, "R5.9", "escape-exemption-only-hyphen-values", pp.where(),
              "on `--`: only allow_hyphen_values of the pending argument can make it a value", "on the `--` token Parser::parse also consults %s: `--` is swallowed as a value in more situations and positional-only mode never starts" % [q for q in escq if q not in ("index", "is_allow_hyphen_values_set", "start_trailing")])
