"""C02 — every argv token is attributed exactly once, per the documented grammar."""
import re
from rulekit import *

EXPLANATION = (
    "R2.1 lock-step storage: in MatchedArg every function that pushes to `vals` pushes to `raw_vals` in the same straight-line "
    "region and vice versa (new_val_group, append_val); no other function writes either field. R2.2 one index per value: in "
    "push_arg_values every loop iteration passes cur_idx.set(cur_idx.get()+1) -> parse_ref -> add_val_to -> add_index_to in that "
    "order, with the same arg id and the freshly incremented index. R2.3 index monotonicity: every write of Parser::cur_idx is "
    "set(get()+1) on the same cell or the parent->child copy in parse_subcommand. R2.4 verbatim values: the values handed to "
    "react/add_val_to derive from ParsedArg::to_value_os, to_long().1, ShortFlags::next_value_os or RawArgs::remaining with only "
    "to_owned/to_os_string, strip_prefix(\"=\") on the short path (after a value-taking option was found) and "
    "OsStrExt::split(value delimiter) in between; lossy or rewriting transforms (to_string_lossy, to_str->String, trim*, "
    "replace, case mapping, split_once on the short path, format!) in that slice are violations. R2.4b an attached value closes the occurrence (parse_opt_value returns ParseResult::Opt only on the no-attached-value edge). R2.5 occurrence grouping "
    "(each storing arm of react opens exactly one occurrence; ArgMatcher::start_custom_arg opens a value group "
    "unconditionally). R2.6 ValueRange::accepts_more is `current < end_inclusive`; needs_more_vals counts pending values "
    "of the same arg. NOT decided: conservation as an equality between argv and reported values; short-cluster slicing "
    "arithmetic inside clap_lex (C13)."
    ' R2.4 (added): react cuts delimited values with OsStrExt::split as long as it reads a value delimiter (a hand-written cutting loop is a violation).'
    " R2.4 lemma (added): OsStrExt::find reaches its scan whenever len >= needle.len() and walks to the last start position (contains/split/split_once sit on it). R2.A accessor layer (lib/accessors.py): for the is_*_set / get_* accessors this property's rules name — the bool builder sets and unsets one flag on the right edges and the predicate reads that same flag; builder scope (global/local) as in audit/setting_scope.tsv; no two predicates/builders share a flag; setting/unset_setting/global_setting/is_set forward to the right flag word, the flag word is |=bit / &=!bit / &bit!=0 with bit = 1<<discriminant, _propagate_subcommand hands g_settings to the child's settings and g_settings; plain field getters return their field."
)
TRUSTED = ["rustc MIR", "clapfacts"]
ASSUMPTIONS = ["user value parsers return a value for the raw string they are given (C04)"]

FORBID = r"(to_string_lossy|OsStr::to_str$|str::trim|str::replace|to_lowercase|to_uppercase|to_ascii|fmt::format$|String::from_utf8|into_string$|str::split_once$|rsplit|str::repeat)"


def run(ctx):
    fx, res = ctx.fx, ctx.res
    import lemmas
    lemmas.osstr_find_complete(fx, res, "R2.4")      # react's contains/split on the value delimiter is built on OsStrExt::find
    MA = r"^clap_builder::parser::matches::matched_arg::MatchedArg::"
    # ---- R2.1
    writers = {}
    for b in fx.bodies(r"^clap_builder::"):
        for fld in ("vals", "raw_vals"):
            hits = []
            for c in b.calls():
                if c.is_(r"Vec::(push|insert|extend|append|clear|truncate|pop|remove|retain|drain)$", r"Extend(<[^>]*>)?>?::extend$") and c.args:
                    e = expr(b, c.args[0])
                    if re.fullmatch(r"(deref_mut\()?self\.%s\)?" % fld, e) or re.fullmatch(r"expect\(last_mut\(deref_mut\(self\.%s\)\),.*\)" % fld, e):
                        if "matched_arg" in b.file:
                            hits.append(c)
            if hits:
                writers.setdefault(b.q, {})[fld] = hits
    res.floor("R2.1", "functions writing MatchedArg::vals/raw_vals", len(writers), 2)
    for q, w in sorted(writers.items()):
        both = "vals" in w and "raw_vals" in w and len(w["vals"]) == len(w["raw_vals"])
        same = both
        if both:
            b = w["vals"][0].body
            for c1, c2 in zip(w["vals"], w["raw_vals"]):
                # same region: neither is skippable without the other
                same = same and (b.block_dominates(c1.bb, c2.bb) or b.block_dominates(c2.bb, c1.bb)) and c1.callee_q.rsplit("::", 1)[1] == c2.callee_q.rsplit("::", 1)[1]
        fn = q.rsplit("::", 1)[1]
        res.check(both and same and fn in ("new_val_group", "append_val"), "R2.1", "lock-step|" + fn, w[list(w)[0]][0].body.where(), "%s writes vals and raw_vals together" % fn,
                  "%s writes %s without the matching write to the sibling vector (typed and raw values would diverge)" % (fn, sorted(w)))
    for b in fx.bodies(r"^clap_builder::"):
        if re.search(MA, b.q):
            continue
        for fld in ("vals", "raw_vals"):
            ws = writes_field(b, fld)
            ws = [x for x in ws if any(str(el).endswith("@clap_builder::parser::matches::matched_arg::MatchedArg") for el in x[1]["place"][1:] if isinstance(el, str))]
            for i, s in ws:
                res.violation("R2.1", "foreign-writer|%s|%s" % (b.q, fld), "%s in %s" % (sp_str(s["sp"]), b.q), "MatchedArg::%s written outside MatchedArg" % fld)

    # ---- R2.2
    pa = fx.body("clap_builder::parser::parser::Parser::push_arg_values")
    pa_top = pa
    # `for raw_val in raw_vals { .. }` or `raw_vals.into_iter().try_for_each(|raw_val| { .. })`: the per-value steps are looked for in the loop body
    loop_item = r"next\(into_iter\(raw_vals\)\)#Some\.0"
    if not pa.calls_to(r"parse_ref$"):
        for ch in pa.children:
            feed = closure_feed(fx, ch)
            if ch.calls_to(r"parse_ref$") and feed and feed[1].is_(r"Iterator>?::(try_for_each|for_each)$") and re.fullmatch(r"into_iter\(raw_vals\)", feed[2]) and ch.argc >= 2:
                pa = ch
                loop_item = re.escape(ch.local_name(2) or "arg2")
                break
    self_ = "self" if pa is pa_top else r"arg1\.\d+"
    seq = []
    for rx in (r"Cell<[^>]*>::set$|Cell::set$", r"parse_ref$", r"ArgMatcher::add_val_to$", r"ArgMatcher::add_index_to$"):
        cs = [c for c in pa.calls_to(rx) if not sp_macro(c.sp)]
        require(fx, res, "R2.2", "step-missing|" + rx.split("::")[-1].rstrip("$"), pa, rx, len(cs), 1, "push_arg_values no longer performs the step %s for each value (value stored without its index / unparsed / not stored)" % rx, local_callee="ArgMatcher" in rx)
        if cs:
            seq.append(cs[0])
    if len(seq) == 4:
        ok = all(pa.block_dominates(a.bb, b.bb) and a.bb != b.bb for a, b in zip(seq, seq[1:]))
        res.check(ok, "R2.2", "order", pa.where(), "index++ -> parse_ref -> add_val_to -> add_index_to", "push_arg_values no longer performs index++, parse, store value, store index in that order")
        st, pr, av, ai = seq
        res.check(re.fullmatch(r"Add\(get\(%s\.cur_idx\),1\)" % self_, expr(pa, st.args[1])) is not None, "R2.2", "index-increment", st.where(), "cur_idx := cur_idx + 1 per value", "cur_idx updated with %s" % expr(pa, st.args[1]))
        res.check(expr(pa, av.args[1]) == expr(pa, ai.args[1]) and re.fullmatch(r"get_id\((arg|arg1\.\d+)\)", expr(pa, av.args[1])) is not None, "R2.2", "same-arg", av.where(), "value and index stored under the same arg id", "value/index stored under different ids")
        res.check(re.fullmatch(r"get\(%s\.cur_idx\)" % self_, expr(pa, ai.args[2])) is not None or expr(pa, ai.args[2]) == expr(pa, st.args[1]), "R2.2", "index-value", ai.where(), "stored index = current cur_idx", "stored index is %s" % expr(pa, ai.args[2]))
        raw = expr(pa, av.args[3])
        res.check(raw == expr(pa, pr.args[3]) or raw in expr(pa, pr.args[3]), "R2.2", "raw-equals-parsed-input", av.where(), "raw value stored = the string given to the value parser", "raw value stored (%s) differs from the parser input (%s)" % (raw, expr(pa, pr.args[3])))
        # loop: every value of raw_vals (for over the vector, no skip/take/filter)
        it = expr(pa, pr.args[3])
        res.check(re.fullmatch(loop_item, it) is not None, "R2.2", "every-value", pr.where(), "loop visits every raw value once", "push_arg_values iterates %s" % it)

    # ---- R2.3
    n = 0
    for b in fx.bodies(r"^clap_builder::parser::parser::Parser::"):
        for c in b.calls_to(r"std::cell::Cell::set$|Cell<[^>]*>::set$"):
            if sp_macro(c.sp):
                continue
            n += 1
            import panics as _P
            cell, val = _P.resolved_operand(b, expr(b, c.args[0])), _P.resolved_operand(b, expr(b, c.args[1]))     # closure captures written in the function's terms
            ok = (cell == "self.cur_idx" and val == "Add(get(self.cur_idx),1)") or (b.q.endswith("parse_subcommand") and val == "get(self.cur_idx)" and cell.endswith(".cur_idx"))
            res.check(ok, "R2.3", "cur_idx-write|%s" % re.sub(r"::\{closure#\d+\}", "", b.q).rsplit("::", 1)[1], c.where(), "%s := %s" % (cell, val), "cur_idx written with %s := %s (indices must only grow by one per flag/value)" % (cell, val))
    res.floor("R2.3", "writes of cur_idx", n, 5)

    # ---- R2.4 verbatim values
    def judge(key, body, operand, where, need=(), extra_forbid=None, allow=()):
        cs = slice_calls(fx, body, operand)
        names = [c.callee_q or c.decl_q or "" for c in cs]
        bad = [n_ for n_ in names if re.search(FORBID, n_) and not any(re.search(a, n_) for a in allow)]
        if extra_forbid:
            bad += [n_ for n_ in names if re.search(extra_forbid, n_)]
        missing = [r for r in need if not any(re.search(r, n_) for n_ in names)]
        res.check(not bad and not missing, "R2.4", key, where, "value flows verbatim (%d calls in slice)" % len(cs),
                  "raw value is transformed on its way to the matches: forbidden %s missing %s" % (sorted(set(b_.rsplit("::", 1)[-1] for b_ in bad)), missing))
    ps = fx.body("clap_builder::parser::parser::Parser::parse_short_arg")
    for c in ps.calls_to(r"Parser::parse_opt_value$"):
        judge("short-attached-value", ps, c.args[2], c.where(), need=[r"ShortFlags::next_value_os$", r"OsStrExt>?::strip_prefix$"])
        # strip_prefix literal is "="
        sp_ = [x for x in slice_calls(fx, ps, c.args[2]) if x.is_(r"OsStrExt>?::strip_prefix$")]
        res.check(bool(sp_) and all(const_of(x.body, x.args[1]) == "=" for x in sp_), "R2.4", "short-strip-equals", c.where(), "only one leading `=` is stripped from an attached short value", "short attached value is cut with %s" % [const_of(x.body, x.args[1]) for x in sp_])
        # the cluster walk took a value-taking option before looking at the attached value
        res.check(has_bool(ps, c.bb, "T", r"^is_takes_value_set\(") or has_bool(ps, c.bb, "F", r"^Not\(is_takes_value_set|is_takes_value_set"), "R2.4", "short-value-only-for-options", c.where(),
                  "attached value only for value-taking options", "attached value consumed for a flag that takes no value")
    pl = fx.body("clap_builder::parser::parser::Parser::parse_long_arg")
    for c in pl.calls_to(r"Parser::parse_opt_value$"):
        res.check(expr(pl, c.args[2]) == "long_value", "R2.4", "long-attached-value", c.where(), "`--opt=value` value passed through unchanged", "long attached value is %s" % expr(pl, c.args[2]))
    pp = fx.body("clap_builder::parser::parser::Parser::parse")
    for c in pp.calls_to(r"Parser::parse_long_arg$"):
        e2, e3 = expr(pp, c.args[2]), expr(pp, c.args[3])
        res.check(re.search(r"^to_long\(.*\)#Some\.0\.0$", e2) is not None and re.search(r"^to_long\(.*\)#Some\.0\.1$", e3) is not None, "R2.4", "long-split", c.where(), "name/value are the two halves of to_long()", "parse_long_arg fed with %s / %s" % (e2[:50], e3[:50]))
    po = fx.body("clap_builder::parser::parser::Parser::parse_opt_value")
    for c in po.calls_to(r"Parser::react$"):
        cs = slice_calls(fx, po, c.args[4])
        names = [x.callee_q or "" for x in cs]
        bad = [n_ for n_ in names if re.search(FORBID, n_)]
        res.check(not bad, "R2.4", "opt-value->react", c.where(), "attached value handed to react verbatim", "parse_opt_value transforms the value: %s" % bad)
    for c in pp.calls_to(r"ArgMatcher::add_val_to$"):
        e = expr(pp, c.args[3])
        res.check(re.fullmatch(r"to_os_string\(next\(into_iter\(remaining\(raw_args,args_cursor\)\)\)#Some\.0\)", e) is not None, "R2.4", "external-verbatim", c.where(), "external subcommand args stored verbatim", "external subcommand arg stored as %s" % e[:100])
    rc = fx.body("clap_builder::parser::parser::Parser::react")
    spl = rc.calls_to(r"OsStrExt>?::split$")
    # react still consults the declared delimiter but no longer cuts with OsStrExt::split (which yields EVERY piece, empty ones included):
    # a hand-written cutting loop is where pieces get lost
    require(fx, res, "R2.4", "split-pieces-all-kept", rc, r"OsStrExt>?::split$", len(spl), 1,
            "react no longer splits a delimited value with OsStrExt::split (the declared delimiter is still read: %d get_value_delimiter call(s)); a hand-written cut can drop or merge pieces (e.g. the empty piece after a trailing delimiter)" % len(rc.calls_to(r"Arg::get_value_delimiter$")))
    for c in spl:
        d = expr(rc, c.args[1])
        res.check(re.search(r"^encode_utf8\(get_value_delimiter\(arg\)#Some\.0", d) is not None, "R2.4", "split-only-at-declared-delimiter", c.where(), "values split only at the arg's declared delimiter", "react splits at %s" % d[:80])
    # every piece of the split is kept: the only thing between split() and the value list is the to-owned map
    exts = [c for c in rc.calls_to(r"Extend(<[^>]*>)?>?::extend$", r"Iterator::collect$") if "split(" in " ".join(expr(rc, a) for a in c.args)]
    res.floor("R2.4", "consumer of the delimiter split in react", len(exts), 1 if spl else 0)
    for c in exts:
        e = [expr(rc, a) for a in c.args if "split(" in expr(rc, a)][0]
        okk = re.fullmatch(r"map\(split\(next\(into_iter\(enumerate\(into_iter\(raw_vals\)\)\)\)#Some\.0\.1,encode_utf8\(.*\)\),closure\(\)\)", e) is not None
        cbs = [cb for m_ in rc.calls_to(r"Iterator::map$") if expr(rc, m_.args[0]).startswith("split(") for cb in closure_bodies(fx, m_)]
        okc = bool(cbs) and all(len([x for x in cb.calls() if not sp_macro(x.sp)]) == 1 and cb.calls()[0].is_(r"to_owned$|to_os_string$") for cb in cbs)
        res.check(okk and okc, "R2.4", "split-pieces-all-kept", c.where(), "values.extend(raw_val.split(delim).map(to_owned)): every piece, empty ones included, becomes a value",
                  "pieces of a delimited value are filtered or rewritten before they are stored: %s" % e[:140])
    # siblings: the `prior argument accepts hyphen values` guard covers the same parse states for long and short tokens
    sets_ = {}
    for fn_ in ("parse_long_arg", "parse_short_arg"):
        b_ = fx.body("clap_builder::parser::parser::Parser::" + fn_)
        vs_ = set()
        for c in b_.calls_to(r"Arg::is_allow_hyphen_values_set$"):
            if expr(b_, c.args[0]) == "index(self.cmd,opt)":
                vs_ |= set(m_.group(1) for g in guard_strs(b_, c.bb) for m_ in [re.fullmatch(r"V(\d+):parse_state", g)] if m_)
        sets_[fn_] = vs_
    names = enum_variants(fx, "parser::parser::ParseState")
    pretty = lambda vs_: sorted(names[int(v)] if names and int(v) < len(names) else v for v in vs_)
    want = set(str(names.index(n)) for n in ("Opt", "Pos")) if names and "Opt" in names and "Pos" in names else None
    res.check(sets_["parse_long_arg"] == sets_["parse_short_arg"] and (want is None or sets_["parse_long_arg"] == want), "R2.4", "hyphen-value-precedence-siblings", "clap_builder/src/parser/parser.rs",
              "prior hyphen-accepting argument (pending option or positional) takes `--x` and `-x` alike: states %s" % pretty(sets_["parse_long_arg"]),
              "parse_long_arg yields to a prior allow_hyphen_values argument in states %s, parse_short_arg in %s: `--flag` and `-f` are attributed differently after the same prefix" % (pretty(sets_["parse_long_arg"]), pretty(sets_["parse_short_arg"])))
    # an attached value (`--opt=v`, `-ov`, `-o=v`) closes its occurrence: parse_opt_value keeps the option open (ParseResult::Opt) only without one
    pov = fx.body("clap_builder::parser::parser::Parser::parse_opt_value")
    opts_ = [i for i, j, s_ in pov.stmts() if s_["k"] == "assign" and s_["rv"]["k"] == "agg" and s_["rv"].get("variant") == "Opt"]
    res.floor("R2.4", "ParseResult::Opt results in parse_opt_value", len(opts_), 1)
    for i in opts_:
        gl = guard_strs(pov, i)
        res.check(any(re.match(r"^(!V1:attached_value|V0:attached_value|F:is_some\(attached_value\))$", g) for g in gl), "R2.4", "attached-value-closes-occurrence", "%s bb%d" % (pov.where(), i),
                  "the option stays open for following tokens only when no value was attached", "parse_opt_value leaves the option open (ParseResult::Opt) although a value was attached (guards %s): tokens after `--opt=v` / `-ov` are swallowed as further values of that option" % [g[:50] for g in gl])
    # no other rewriting of raw_vals in react
    bad = [c for c in rc.calls() if not sp_macro(c.sp) and re.search(FORBID, c.callee_q or "") and not c.is_(r"error::|to_string$")]
    bad = [c for c in bad if not any(re.match(r"^V[5-8]:get_action", g) for g in guard_strs(rc, c.bb))]
    res.check(not bad, "R2.4", "react-no-rewrite", rc.where(), "react does not rewrite values", "react rewrites values with %s" % [c.callee_q for c in bad])

    # ---- R2.5 (shared with C07)
    asc = fx.body("clap_builder::parser::arg_matcher::ArgMatcher::start_custom_arg")
    nv = asc.calls_to(r"MatchedArg::new_val_group$")
    res.check(len(nv) == 1 and not asc.must_pass([nv[0].bb]), "R2.5", "group-per-occurrence", asc.where(), "every occurrence opens a value group", "ArgMatcher::start_custom_arg opens a value group only conditionally")
    ng = fx.body("clap_builder::parser::matches::matched_arg::MatchedArg::new_val_group")
    res.check(not [1 for bl in ng.blocks if bl["term"]["k"] == "switch"] and len(ng.calls_to(r"Vec::push$")) == 2, "R2.5", "new_val_group-unconditional", ng.where(), "new_val_group is unconditional", "new_val_group is conditional")
    ap = fx.body("clap_builder::parser::matches::matched_arg::MatchedArg::append_val")
    res.check(len(ap.calls_to(r"\[T\]::last_mut$")) == 2 and len(ap.calls_to(r"Vec::push$")) == 2, "R2.5", "append-to-last-group", ap.where(), "append_val appends to the last group of both vectors", "append_val no longer appends to the last group")

    # ---- R2.6
    am = fx.body("clap_builder::builder::range::ValueRange::accepts_more")
    cmpv = None
    for i, j, s in am.stmts():
        if s["k"] == "assign" and s["rv"]["k"] == "binop" and s["rv"]["op"] in ("Lt", "Le", "Gt", "Ge", "Eq", "Ne"):
            cmpv = (s["rv"]["op"], expr(am, s["rv"]["a"]), expr(am, s["rv"]["b"]))
    ok = cmpv in (("Lt", "current", "self.end_inclusive"), ("Gt", "self.end_inclusive", "current"))
    res.check(ok, "R2.6", "accepts_more", am.where(), "accepts_more = current < end_inclusive", "accepts_more computes %s" % (cmpv,))
    nm = fx.body("clap_builder::parser::arg_matcher::ArgMatcher::needs_more_vals")
    acc = nm.calls_to(r"ValueRange::accepts_more$")
    def pending_count_ok(o):
        """#pending values of this arg: `pending.and_then(|p| (p.id == arg.id).then_some(p.raw_vals.len())).unwrap_or(0)` or the same as
        a match/if: every non-zero definition is len(pending.raw_vals) on the (Some(pending), pending.id == arg.id) edge, every other is 0."""
        if re.search(r"^unwrap_or\(and_then\((as_ref\()?self\.pending", expr(nm, o)):
            return True
        l = pl_local(op_place(o)) if isinstance(o, dict) and ("mv" in o or "cp" in o) else None
        ds = nm.def_sites(l) if l is not None else []
        for _ in range(6):      # through single-definition copies to the multi-definition local
            if len(ds) == 1 and isinstance(ds[0][3], dict) and ds[0][3]["k"] == "use" and isinstance(ds[0][3]["op"], dict) and ("cp" in ds[0][3]["op"] or "mv" in ds[0][3]["op"]):
                ds = nm.def_sites(pl_local(op_place(ds[0][3]["op"])))
            else:
                break
        nz = 0
        for (bb_, idx_, lhs_, rhs_) in ds:
            if isinstance(rhs_, dict) and rhs_["k"] == "use" and op_int(rhs_["op"]) == 0:
                continue
            g = guard_strs(nm, bb_)
            if not (isinstance(rhs_, Call) and rhs_.is_(r"Vec(<[^>]*>)?::len$") and re.fullmatch(r"self\.pending#Some\.0\.raw_vals", expr(nm, rhs_.args[0]))
                    and "V1:self.pending" in g and any(re.fullmatch(r"T:eq\((self\.pending#Some\.0\.id,get_id\(o\)|get_id\(o\),self\.pending#Some\.0\.id)\)", x) for x in g)):
                return False
            nz += 1
        return nz == 1
    res.check(len(acc) == 1 and pending_count_ok(acc[0].args[1]), "R2.6", "needs_more_vals", nm.where(), "needs_more_vals(arg) = range.accepts_more(#pending values of that arg)", "needs_more_vals changed: %s" % ([expr(nm, c.args[1])[:80] for c in acc]))

    # ---- R2.4c global settings that decide about splitting reach every subcommand level (shared with C05 R5.8)
    pg = fx.body("clap_builder::builder::command::Command::_propagate_subcommand")
    wrote = {}
    for f in ("settings", "g_settings"):
        for i, s_ in writes_field(pg, f):
            if s_["rv"]["k"] == "use":
                wrote[f] = expr(pg, s_["rv"]["op"])
    res.check(wrote.get("settings") == "bitor(sc.settings,self.g_settings)" and wrote.get("g_settings") == "bitor(sc.g_settings,self.g_settings)", "R2.4", "global-settings-handed-down", pg.where(),
              "a subcommand receives the parent's global settings both as settings and as its own global settings", "_propagate_subcommand writes %s: global settings (dont_delimit_trailing_values, args_override_self, infer_long_args ...) stop at the first subcommand level" % wrote)
