"""C18 — the dynamic completion engine never fails and only offers valid continuations."""
import os, re
from rulekit import *
import vset, panics

EXPLANATION = (
    "Static rules over clap_complete's engine (MIR): R18.1 typestate — variant-set abstract interpretation of "
    "engine::complete with trace partitioning on `is_escaped`: no call of parse_positional may receive a ParseState "
    "whose variant set contains Opt, and every unreachable!/panic in complete.rs must be infeasible. "
    "R18.2 PANIC — every explicit panic operation (unwrap/expect/index/slice op/checked arithmetic/panic!) reachable from "
    "engine::complete and the shell adapters' write_complete is discharged by a dominating guard, variant-set "
    "infeasibility, the build invariant (cmd.build() dominates the body and Arg::_build always sets num_vals) or an audited "
    "entry in audit/c18.tsv. R18.3 candidate provenance/filters — option and subcommand candidates are built from the "
    "alias-exposing getters of the command's own arguments/subcommands, every non-empty-prefix branch applies a "
    "starts_with filter, hidden candidates are dropped only under the any-visible test, hidden aliases are marked after the populate step. R18.4 — the shadow parse enters its option-awaiting-value state under exactly the condition the real parser uses (takes values && no `=value` part / no attached short value) and switches to escaped mode only on `--`. NOT decided: agreement of the "
    "shadow parse with the real parser on every argv (needs execution)."
    " R18.1 lemma (added): _propagate_global_args keys the skip of the generated help subcommand on is_disable_help_subcommand_set only. R18.A accessor layer (lib/accessors.py): for the is_*_set / get_* accessors this property's rules name — the bool builder sets and unsets one flag on the right edges and the predicate reads that same flag; builder scope (global/local) as in audit/setting_scope.tsv; no two predicates/builders share a flag; setting/unset_setting/global_setting/is_set forward to the right flag word, the flag word is |=bit / &=!bit / &bit!=0 with bit = 1<<discriminant, _propagate_subcommand hands g_settings to the child's settings and g_settings; plain field getters return their field."
)
TRUSTED = ["rustc MIR", "clapfacts", "lib/vset.py", "audit/c18.tsv entries (read, reason per line)"]
ASSUMPTIONS = ["user-supplied completers (ArgValueCompleter/ArgValueCandidates closures) do not panic",
               "unsigned additions of indices/lengths do not overflow"]

AUDIT = os.path.join(os.path.dirname(os.path.dirname(os.path.abspath(__file__))), "audit", "c18.tsv")


def run(ctx):
    fx, res = ctx.fx, ctx.res
    import lemmas
    lemmas.help_subtree_guard(fx, res, "R18.1")     # what the engine can offer under `help` is what _build put there
    comp = fx.body("clap_complete::engine::complete::complete")
    ppos = fx.body("clap_complete::engine::complete::parse_positional")

    # ---------------- R18.1 typestate
    esc = comp.locals_named("is_escaped")
    res.floor("R18.1", "`is_escaped` flag in complete()", len(esc), 1)
    eng = vset.Engine(fx)
    r = eng.analyze(comp, partition_locals=esc)
    sites = comp.calls_to(r"engine::complete::parse_positional$")
    res.floor("R18.1", "parse_positional call sites", len(sites), 4)
    for n, c in enumerate(sites):
        if c.bb not in r.feasible:
            res.ok("R18.1", "state-arg|infeasible-site", c.where(), "call site infeasible")
            continue
        av = r.call_args[c.bb][3]
        vs = vset.variants_in(av, strip_wrappers=())
        gs = [g for g in guard_strs(comp, c.bb) if "allows_hyphen" in g or "is_escaped" in g or g.startswith(("V", "!V")) and "current_state" in g]
        branch = "escaped" if any("is_escaped" in g and g.startswith("T") for g in guard_strs(comp, c.bb)) else \
                 ("pos_allows_hyphen/" + ("long" if any(g.startswith("V1:to_long") for g in guard_strs(comp, c.bb)) else "short")
                  if any("pos_allows_hyphen" in g for g in gs) else "plain-value")
        ok = vs is not None and "Opt" not in vs
        res.check(ok, "R18.1", "state-arg|%s" % branch, c.where(),
                  "parse_positional(state ∈ %s)" % sorted(vs or []),
                  "parse_positional may be called with ParseState::Opt (state ∈ %s) — it has `unreachable!` for Opt; call path: complete -> [%s branch] -> parse_positional" % (
                      sorted(vs) if vs else "T", branch))
    # callee side: the Opt arm of parse_positional panics (so R18.1 matters)
    pp_panics = [s for s in panics.sites_of(ppos) if s.kind == "panic"]
    for s in pp_panics:
        gv = variant_guard(ppos, s.bb, r"^state$")
        res.note("parse_positional has a panic arm under %s" % gv)
    # every explicit panic in complete() itself must be infeasible
    for s in panics.sites_of(comp):
        if s.kind != "panic":
            continue
        res.check(s.bb not in r.feasible, "R18.1", "unreachable-arm|%s" % s.what, s.where(),
                  "`%s!` arm is infeasible: opt_allows_hyphen returns true only for ParseState::Opt" % s.what,
                  "`%s!` in complete() is feasible under variant-set analysis" % s.what)

    # ---------------- R18.2 PANIC
    entries = [comp] + fx.bodies(r"^<clap_complete::env::shells::\w+ as clap_complete::env::EnvCompleter>::write_complete$")
    res.floor("R18.2", "write_complete adapters", len(entries) - 1, 5)
    pred = fx.reachable_from(entries, crates={"clap_complete"})
    bodies = [v[0] for v in pred.values()]
    res.floor("R18.2", "bodies reachable from the engine entry points", len(bodies), 90)
    inv = panics.inventory(fx, bodies, engine=vset.Engine(fx, max_depth=2))
    # parse_positional's panic arm is judged by R18.1 at the call sites
    inv = [s for s in inv if not (s.body is ppos and s.kind == "panic")]
    audit = panics.load_audit(AUDIT)
    # B: build invariant for get_num_args().expect("built")
    built = comp.calls_to(r"clap_builder::builder::command::Command::build$")
    dom_ok = bool(built) and all(comp.block_dominates(built[0].bb, c.bb) for c in comp.calls() if c.bb != built[0].bb and c.sp[1] > built[0].sp[1] + 0)
    first_ok = bool(built) and all(comp.block_dominates(built[0].bb, c.bb) for c in comp.calls_to(r"raw_args|RawArgs|find_subcommand|complete_arg|get_arguments"))
    res.check(bool(built) and first_ok, "R18.2", "B|build-dominates|" + comp.q, comp.where(),
              "cmd.build() dominates every use of the command in complete()", "complete() uses the command before/without cmd.build()")
    ab = fx.body("clap_builder::builder::arg::Arg::_build")
    writes = [(i, j) for i, j, s in ab.stmts() if s["k"] == "assign" and re.search(r"\.num_vals@", json_place(s["place"]))]
    goi = [c for c in ab.calls_to(r"Option::get_or_insert(_with)?$") if re.search(r"num_vals", expr(ab, c.args[0]))]
    wblocks = set(i for i, _ in writes) | set(c.bb for c in goi)
    # every path to return either writes num_vals or is on the `num_vals.is_some()` branch
    somes = [c for c in ab.calls_to(r"Option::is_some$", r"Option::is_none$") if re.search(r"num_vals", expr(ab, c.args[0]))]
    miss = ab.must_pass(wblocks)
    # paths that skip the write must come through a `num_vals` already-Some guard
    okb = True
    why = "every path of Arg::_build assigns num_vals"
    if miss:
        okb = False
        for d in ab.discr_switches():
            if re.search(r"num_vals", expr(ab, d[1])):
                # the Some edge may skip the write
                some_tgt = d[3].get(1)
                if some_tgt is not None and not ab.must_pass(wblocks, without_blocks=(some_tgt,)):
                    okb = True
                    why = "Arg::_build assigns num_vals on every path where it is not already Some"
    res.check(okb, "R18.2", "B|num_vals-set|" + ab.q, ab.where(), why,
              "Arg::_build has a path to return on which num_vals may stay None (get_num_args().expect(\"built\") would panic)")
    residual, stale = panics.apply_audit(res, "R18.2", inv, audit)
    for k in stale:
        res.note("stale audit entry: " + k)
    # lemma behind the audited `file_name().expect(..)` in split_file_name: path_has_name(p) is true only if p.file_name().is_some()
    phn = fx.body("clap_complete::engine::custom::path_has_name")
    sfn = fx.body("clap_complete::engine::custom::split_file_name")
    truthy = [d for d in phn.def_sites(0) if not (isinstance(d[3], dict) and d[3]["k"] == "use" and op_int(d[3]["op"]) == 0)]
    def _fn_some(body, d):
        return (not isinstance(d[3], dict)) and d[3].callee_q.endswith("Option::is_some") and re.fullmatch(r"file_name\((path|arg1\.\d+)\)", expr(body, d[3].args[0])) is not None
    def _truthy(body):
        return [d for d in body.def_sites(0) if not (isinstance(d[3], dict) and d[3]["k"] == "use" and op_int(d[3]["op"]) == 0)]
    okl = bool(truthy) and all(
        _fn_some(phn, d) or
        # `path_bytes.last().is_some_and(|trailing| !is_separator(..) && path.file_name().is_some())`: true only through the closure, whose every
        # non-false result is the same file_name().is_some()
        ((not isinstance(d[3], dict)) and d[3].is_(r"Option(<[^>]*>)?::is_some_and$") and all(bool(_truthy(cb)) and all(_fn_some(cb, d2) for d2 in _truthy(cb)) for cb in own_closures(fx, d[3])) and bool(closure_bodies(fx, d[3])))
        for d in truthy)
    res.check(okl, "R18.2", "lemma|path_has_name=>file_name-is-some", phn.where(), "every non-false result of path_has_name is path.file_name().is_some()",
              "path_has_name can return true without path.file_name().is_some() (%s): split_file_name's expect(\"not called with `..`\") panics for words ending in `.` / `..`" % [
                  (d[3] if isinstance(d[3], dict) else d[3].callee_q.rsplit("::", 1)[1] + "(" + expr(phn, d[3].args[0])[:40] + ")") for d in truthy][:2])
    exs = [c for c in sfn.calls_to(r"Option::expect$") if expr(sfn, c.args[0]) == "file_name(path)"]
    res.check(all(has_bool(sfn, c.bb, "T", r"^path_has_name\(path\)$") for c in exs), "R18.2", "lemma|expect-under-path_has_name", sfn.where(), "file_name().expect only under path_has_name(path)",
              "split_file_name unwraps file_name() outside the path_has_name(path) edge")
    # lemma behind the audited split_at in rsplit_delimiter: index = position of the delimiter + ITS encoded length (a char boundary)
    rd = fx.body("clap_complete::engine::complete::rsplit_delimiter")
    for c in rd.calls_to(r"^str::split_at$"):
        e = expr(rd, c.args[1])
        m = re.fullmatch(r"Add\(branch\(rfind\((.*),(.*)\)\)#Continue\.0,len_utf8\((.*)\)\)", e) or re.fullmatch(r"Add\(rfind\((.*),(.*)\)#Some\.0,len_utf8\((.*)\)\)", e)
        res.check(m is not None and m.group(2) == m.group(3) and expr(rd, c.args[0]) == m.group(1), "R18.2", "lemma|rsplit-index-is-boundary", c.where(), "split_at(rfind(delim) + delim.len_utf8())",
                  "rsplit_delimiter splits at %s: with a multi-byte value delimiter this is not a char boundary and split_at panics" % e[:100])
    # the adapters' `args.len() - 1` is only sound because the internal caller guards non-emptiness
    tc = fx.body("clap_complete::env::CompleteEnv::try_complete_")
    wc = tc.calls_to(r"EnvCompleter::write_complete$")
    res.floor("R18.2", "write_complete dispatch in try_complete_", len(wc), 1)
    for c in wc:
        res.check(has_bool(tc, c.bb, "F", r"^is_empty\(args\)$"), "R18.2", "caller-guard|" + tc.q, c.where(),
                  "write_complete only called with non-empty args", "write_complete reachable with empty args (adapters compute args.len() - 1)")

    # ---------------- R18.3 provenance and filters
    co = fx.body("clap_complete::engine::complete::complete_option")
    n = 0
    for c in co.calls_to(r"Extend(<[^>]*>)?>?::extend$"):
        e = expr(co, c.args[1], 8)
        gl = guard_strs(co, c.bb)
        in_long_prefix = any(g.startswith("V1:to_long(") for g in gl) and any(re.match(r"^(V0|!V1):.*to_long\(.*\.1$", g) for g in gl)
        if not in_long_prefix:
            continue
        n += 1
        m = re.match(r"^filter\(into_iter\((longs_and_visible_aliases|hidden_longs_aliases)\(", e)
        okf = False
        if m:
            for f in co.calls_to(r"Iterator::filter$"):
                if expr(co, f.dest, 8) == e or expr(co, f.args[0], 8) in e:
                    for cb in closure_bodies(fx, f):
                        if cb.calls_to(r"starts_with$"):
                            okf = True
        res.check(bool(m) and okf, "R18.3", "prefix-filter|long|%s" % (m.group(1) if m else "?"), c.where(),
                  "long candidates filtered by starts_with: %s" % e[:80], "long-option candidates offered without a starts_with prefix filter: %s" % e[:120])
    res.floor("R18.3", "long-prefix candidate sources in complete_option", n, 2)
    cs = fx.body("clap_complete::engine::complete::complete_subcommand")
    fl = [f for f in cs.calls_to(r"Iterator::filter$") if re.search(r"subcommands\(", expr(cs, f.args[0], 6))]
    okf = any(cb.calls_to(r"starts_with$") for f in fl for cb in closure_bodies(fx, f))
    if not okf:
        # loop form: for c in subcommands(cmd) { if c.get_value().starts_with(value) { scs.push(c) } }
        pushes_ = [c for c in cs.calls_to(r"Vec(<[^>]*>)?::push$") if re.search(r"next\(into_iter\(subcommands\(", expr(cs, c.args[1], 8))]
        okf = bool(pushes_) and all(has_bool(cs, c.bb, "T", r"^starts_with\(get_value\(") for c in pushes_)
    res.check(okf, "R18.3", "prefix-filter|subcommand", cs.where(), "subcommand candidates filtered by starts_with(value)",
              "subcommand candidates are not filtered by the word under the cursor")
    for fn_, rx in (("complete_external_subcommand", r"Vec::retain$"), ("complete_custom_arg_value", r"Vec::retain$")):
        b = fx.maybe_body("clap_complete::engine::complete::" + fn_)
        if b is None and fn_ == "complete_external_subcommand":
            b = fx.body("clap_complete::engine::complete::complete_subcommand")       # the helper written out in its only caller
        elif b is None:
            b = fx.body("clap_complete::engine::complete::" + fn_)
        ok_ = any(cb.calls_to(r"starts_with$", r"starts_with$") for f in b.calls_to(rx) for cb in closure_bodies(fx, f))
        res.check(ok_, "R18.3", "prefix-filter|" + fn_, b.where(), "retain(starts_with)", "%s does not filter by prefix" % fn_)
    cav = fx.body("clap_complete::engine::complete::complete_arg_value")
    fm = [f for f in cav.calls_to(r"Iterator::filter_map$")]
    okp = any(cb.calls_to(r"starts_with$") and cb.calls_to(r"bool::then$") for f in fm for cb in closure_bodies(fx, f))
    res.check(okp, "R18.3", "prefix-filter|possible-values", cav.where(), "possible values filtered by starts_with(value).then(..)",
              "possible-value candidates are not filtered by prefix")
    # provenance of candidates
    prov = {
        "longs_and_visible_aliases": [r"Command::get_arguments$", r"Arg::get_long_and_visible_aliases$"],
        "hidden_longs_aliases": [r"Command::get_arguments$", r"Arg::get_aliases$", r"CompletionCandidate::hide$"],
        "shorts_and_visible_aliases": [r"Command::get_arguments$", r"Arg::get_short_and_visible_aliases$"],
        "subcommands": [r"Command::get_subcommands$", r"Command::get_name_and_visible_aliases$", r"Command::get_aliases$", r"CompletionCandidate::hide$"],
    }
    for fn_, reqs in prov.items():
        b = fx.body("clap_complete::engine::complete::" + fn_)
        missing = [r_ for r_ in reqs if not tree_calls(b, r_)]
        res.check(not missing, "R18.3", "provenance|" + fn_, b.where(), "built from %s" % [x.split("::")[-1].rstrip("$") for x in reqs],
                  "%s no longer draws candidates from %s" % (fn_, missing))
    # hidden aliases are marked hide(true) *after* populate_*_candidate (whose own .hide(<item>.is_hide_set())
    # would otherwise overwrite the mark): the receiver of hide(true) is the populate call's result
    for fn_ in ("hidden_longs_aliases", "subcommands"):
        b = fx.body("clap_complete::engine::complete::" + fn_)
        hs = [c for c in tree_calls(b, r"CompletionCandidate::hide$")]
        good = [c for c in hs if op_int(c.args[1]) == 1 and re.match(r"^populate_(arg|command)_candidate\(", expr(c.body, c.args[0], 4))]
        res.check(bool(good), "R18.3", "hidden-marked|" + fn_, b.where(), "hidden aliases: hide(true) applied to the populated candidate",
                  "hidden aliases in %s are not marked hidden after populate_*_candidate (the populate step resets `hidden` from the item)" % fn_)
    for fn_ in ("populate_arg_candidate", "populate_command_candidate"):
        b = fx.body("clap_complete::engine::complete::" + fn_)
        hs = b.calls_to(r"CompletionCandidate::hide$")
        res.check(len(hs) == 1 and re.match(r"^is_hide_set\(", expr(b, hs[0].args[1], 4)) is not None, "R18.3", "hidden-from-item|" + fn_, b.where(),
                  "candidate visibility copied from the item's is_hide_set()", "%s does not copy is_hide_set() of the item" % fn_)

    # ---------------- R18.4b the shadow parse resolves flags the way the real parser's key map does: primary spelling AND visible aliases
    for fn_, want in (("parse_shortflags", "get_short_and_visible_aliases"), ("complete", "get_long_and_visible_aliases")):
        b_ = fx.body("clap_complete::engine::complete::" + fn_)
        fnd = [c for c in b_.calls_to(r"Iterator>?::(find|find_map|position|any)$") if re.match(r"^get_arguments\((cmd|current_cmd)\)$", expr(b_, c.args[0]))]
        res.floor("R18.4", "argument lookup in %s" % fn_, len(fnd), 1)
        for c in fnd:
            used = sorted(set(cc.callee_q.rsplit("::", 1)[1] for cb in closure_bodies(fx, c) for x in tree(cb) for cc in x.calls() if cc.callee_q and cc.callee_q.startswith("clap_builder::builder::arg::Arg::")))
            res.check(want in used, "R18.4", "lookup-alias-aware|" + fn_, c.where(), "argument looked up through %s" % want,
                      "%s identifies the argument of a flag through %s only: a visible alias (which the real parser accepts) is not recognised, so the shadow parse goes out of step (offers stacked flags where a value is expected, forgets the pending option)" % (fn_, used))
    # ---------------- R18.4c a word that names a subcommand moves the shadow parse into it whatever value state is open
    # (the real parser does so under subcommand_precedence_over_arg; gating the descent on the state leaves the engine at the parent)
    cpl = fx.body("clap_complete::engine::complete::complete")
    fsc = cpl.calls_to(r"Command::find_subcommand$")
    require(fx, res, "R18.4", "descends-into-subcommands", cpl, r"Command::find_subcommand$", len(fsc), 1, "complete() no longer follows subcommand names")
    for c in fsc:
        bg = [g for g in guard_strs(cpl, c.bb) if re.match(r"^[TF]:", g) and not re.match(r"^F:eq\(cursor\(", g)]
        res.check(not bg, "R18.4", "descent-not-gated-on-state", c.where(), "descent independent of the pending-value state",
                  "complete() follows a subcommand name only under %s: with subcommand_precedence_over_arg the real parser enters the subcommand while values are open, the engine stays at the parent and offers the wrong level" % bg)
    # ---------------- R18.3b nothing but the reviewed tests can drop a candidate (completeness side)
    OKC = (r"(candidate::CompletionCandidate::(get_value|is_hide_set|get_id|get_tag|get_display_order|new|help|hide|id|tag|display_order|add_prefix)|arg::Arg::(get_\w+|is_positional)|"
           r"possible_value::PossibleValue::(get_\w+|is_hide_set)|complete::populate_arg_candidate|command::Command::get_\w+)$")
    ndrop = 0
    for b in fx.bodies(r"^clap_complete::engine::complete::"):
        for u in b.calls_to(r"Iterator::(filter|filter_map|take_while|skip_while|skip|take|step_by)$", r"Vec::(retain|truncate|drain|remove|swap_remove|clear|pop)$"):
            ndrop += 1
            extra = sorted(set(cc.callee_q.split("::", 1)[1] for cb in closure_bodies(fx, u) for x in tree(cb) for cc in x.calls()
                               if cc.callee_q and re.match(r"^clap_", cc.callee_q) and not sp_macro(cc.sp) and not re.search(OKC, cc.callee_q)))
            trunc = u.is_(r"Iterator::(skip|take|step_by)$", r"Vec::(truncate|drain|remove|swap_remove|clear|pop)$")
            res.check(not extra and not trunc, "R18.3", "candidate-drop|%s|%s" % (b.q.split("::", 3)[-1].split("{")[0].rstrip(":"), u.callee_q.rsplit("::", 1)[1]), u.where(),
                      "candidates dropped only by prefix / hidden / duplicate-id tests", "%s %s the candidate list%s: a visible option or subcommand extending the word may not be offered" % (
                          b.q, "truncates" if trunc else "filters", "" if trunc else " with " + str(extra)))
    res.floor("R18.3", "candidate-dropping operations in the engine", ndrop, 10)
    # ---------------- R18.4 shadow-parse transitions mirror the grammar of the real parser
    ns = comp.locals_named("next_state")
    res.floor("R18.4", "`next_state` local", len(ns), 1)
    opt_sets = []
    for i, j, s_ in comp.stmts():
        if s_["k"] == "assign" and pl_local(s_["place"]) in ns:
            rv = s_["rv"]
            if (rv["k"] == "agg" and rv.get("variant") == "Opt") or (rv["k"] == "use" and op_place(rv["op"]) is not None and "Opt" in agg_variants(comp, rv["op"])):
                opt_sets.append((i, s_))
    res.floor("R18.4", "transitions into ParseState::Opt", len(opt_sets), 2)
    for i, s_ in opt_sets:
        gl = guard_strs(comp, i)
        is_long = any(g.startswith("V1:to_long(") for g in gl)
        if is_long:
            # real parser: a long option awaits a value iff it takes values and no `=value` part was given (has_eq = long_value.is_some())
            ok_ = any(re.match(r"^T:takes_values\(", g) for g in gl) and \
                any(re.match(r"^(T:is_none|F:is_some)\(to_long\(.*\.1\)$", g) or re.match(r"^V0:to_long\(.*\.1$", g) for g in gl)
            res.check(ok_, "R18.4", "opt-pending|long", "%s in %s" % (sp_str(s_["sp"]), comp.q),
                      "Opt entered iff takes_values() && value.is_none()",
                      "long option enters the pending-value state under a different condition than the real parser (takes_values && no `=value` part): guards %s" % gl[-3:])
        else:
            ok_ = any(re.match(r"^(T:is_none|F:is_some)\(next_value_os\(", g) for g in gl) and any(re.match(r"^V1:parse_shortflags\(.*\.1$", g) for g in gl)
            res.check(ok_, "R18.4", "opt-pending|short", "%s in %s" % (sp_str(s_["sp"]), comp.q),
                      "Opt entered iff a value-taking short was found and no attached value remains",
                      "short option enters the pending-value state under a different condition: guards %s" % gl[-3:])
    # escape switch only on `--`
    esc_sets = [(i, s_) for i, j, s_ in comp.stmts() if s_["k"] == "assign" and pl_local(s_["place"]) in esc and s_["rv"]["k"] == "use" and op_int(s_["rv"]["op"]) == 1]
    res.floor("R18.4", "is_escaped = true sites", len(esc_sets), 1)
    for i, s_ in esc_sets:
        res.check(has_bool(comp, i, "T", r"^is_escape\("), "R18.4", "escape-switch", "%s in %s" % (sp_str(s_["sp"]), comp.q),
                  "is_escaped set only when the token is `--`", "is_escaped set without an is_escape() test")
    # hidden candidates dropped only when something visible exists
    ca = fx.body("clap_complete::engine::complete::complete_arg")
    rets = [c for c in ca.calls_to(r"Vec::retain$")]
    okh = False
    for c in rets:
        cbs = closure_bodies(fx, c)
        if any(cb.calls_to(r"CompletionCandidate::is_hide_set$") for cb in cbs):
            okh = has_bool(ca, c.bb, "T", r"^any\(")
            for a in ca.calls_to(r"Iterator::any$"):
                okh = okh and any(cb.calls_to(r"CompletionCandidate::is_hide_set$") for cb in closure_bodies(fx, a))
    res.check(okh, "R18.3", "hidden-filter|" + ca.q, ca.where(), "retain(!is_hide_set) guarded by any(!is_hide_set)",
              "hidden candidates are not dropped under the any-visible test")


def json_place(p):
    return "" if isinstance(p, int) else "".join(str(x) for x in p[1:])
