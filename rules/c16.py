"""C16 — generated completion scripts cover the whole command tree and work in the shell."""
import os, re
from rulekit import *
import panics, vset

EXPLANATION = (
    "R16.1 generate()/generate_to() -> _generate builds the command (cmd.build()) before Generator::generate on every path. "
    "R16.2 generator x item coverage matrix (sibling cross-check over the six generators): from each Generator::generate "
    "impl the call graph must reach an alias-exposing getter for short options, long options and subcommand names "
    "(get_*_and_visible_aliases, or get_* + get_visible_*), must reach possible values through a source filtered by "
    "is_hide_set, and must recurse over get_subcommands; a generator that reaches only the alias-less getter (get_long, "
    "get_short, get_name) for an item kind is a violation naming the generator and the item kind. "
    "R16.3 path mangling agreement in bash.rs: the writer (replace('-', \"__\"), format \"{parent}__{name}\") and the reader "
    "(split(\"__\")) use the same separator literal; zsh likewise (replace(' ', \"__\")). R16.4 DET (no nondeterminism source "
    "reachable) and PANIC over the generator code. NOT decided: that each item is actually printed, nor anything about bash "
    "executing the script (needs a shell)."
    " R16.2 (added): both possible_values helpers hand out the value parser's list as declared (callee whitelist)."
    " R16.A accessor layer (lib/accessors.py): for the is_*_set / get_* accessors this property's rules name — the bool builder sets and unsets one flag on the right edges and the predicate reads that same flag; builder scope (global/local) as in audit/setting_scope.tsv; no two predicates/builders share a flag; setting/unset_setting/global_setting/is_set forward to the right flag word, the flag word is |=bit / &=!bit / &bit!=0 with bit = 1<<discriminant, _propagate_subcommand hands g_settings to the child's settings and g_settings; plain field getters return their field."
)
TRUSTED = ["rustc MIR", "clapfacts", "call-graph fan-out for trait calls", "audit/panic.tsv + audit/c16.tsv"]
ASSUMPTIONS = ["Command::build() propagates bin names and builds all subcommands (C11 R11.1)"]
AUDIT = os.path.join(os.path.dirname(os.path.dirname(os.path.abspath(__file__))), "audit", "panic.tsv")

GENS = {
    "bash": "<clap_complete::aot::shells::bash::Bash as clap_complete::aot::generator::Generator>::generate",
    "zsh": "<clap_complete::aot::shells::zsh::Zsh as clap_complete::aot::generator::Generator>::generate",
    "fish": "<clap_complete::aot::shells::fish::Fish as clap_complete::aot::generator::Generator>::generate",
    "powershell": "<clap_complete::aot::shells::powershell::PowerShell as clap_complete::aot::generator::Generator>::generate",
    "elvish": "<clap_complete::aot::shells::elvish::Elvish as clap_complete::aot::generator::Generator>::generate",
    "nushell": "<clap_complete_nushell::Nushell as clap_complete::aot::generator::Generator>::generate",
}
B = "clap_builder::builder::"
NEED = {
    "short-options+aliases": [[B + "arg::Arg::get_short_and_visible_aliases"], [B + "arg::Arg::get_short", B + "arg::Arg::get_visible_short_aliases"]],
    "long-options+aliases": [[B + "arg::Arg::get_long_and_visible_aliases"], [B + "arg::Arg::get_long", B + "arg::Arg::get_visible_aliases"]],
    "subcommand-names+aliases": [[B + "command::Command::get_name_and_visible_aliases"], [B + "command::Command::get_name", B + "command::Command::get_visible_aliases"]],
    "possible-values(visible)": [[B + "arg::Arg::get_possible_values"], ["clap_complete::aot::generator::utils::possible_values"], [B + "possible_value::PossibleValue::get_name"]],
    "subcommand-recursion": [[B + "command::Command::get_subcommands"]],
}


def strflow_tree(fx, body, operand):
    import strflow
    sf = strflow.StrFlow(fx, r"^$never", inline_crates={"clap_complete"})
    return sf.tree(body, operand)


def has_replace(t, pat, rep, seen=None):
    """Does some path of the string tree apply replace(pat, rep)?"""
    if seen is None:
        seen = set()
    if id(t) in seen:
        return False
    seen.add(id(t))
    k = t[0]
    if k == "repl":
        if t[1] == pat and t[2] == rep:
            return True
        return has_replace(t[3], pat, rep, seen)
    if k == "fmt":
        return any(has_replace(i, pat, rep, seen) for i in t[1] if not isinstance(i, str))
    if k in ("cat", "alt"):
        return any(has_replace(i, pat, rep, seen) for i in t[1])
    if k in ("iter",):
        return has_replace(t[1], pat, rep, seen)
    if k == "mark":
        return has_replace(t[2], pat, rep, seen)
    if k == "join":
        return has_replace(t[1], pat, rep, seen) or has_replace(t[2], pat, rep, seen)
    if k == "opaque":
        return any(has_replace(i, pat, rep, seen) for i in t[2])
    return False


def run(ctx):
    fx, res = ctx.fx, ctx.res
    # ---- R16.1
    g = fx.body("clap_complete::aot::generator::_generate")
    bl = g.calls_to(r"Command::build$")
    gen = g.calls_to(r"Generator>?::generate$")
    res.floor("R16.1", "Generator::generate call in _generate", len(gen), 1)
    res.check(bool(bl) and all(g.block_dominates(bl[0].bb, c.bb) for c in gen), "R16.1", "build-before-generate|" + g.q, g.where(),
              "cmd.build() dominates generator.generate()", "_generate calls the generator without building the command first")
    # the bin name is fixed before the command is built for the first time (building derives every subcommand's bin_name from it)
    for q in ("clap_complete::aot::generator::generate", "clap_complete::aot::generator::generate_to"):
        gb_ = fx.maybe_body(q)
        if gb_ is None:
            continue
        sb_ = gb_.calls_to(r"Command::set_bin_name$")
        builds_ = gb_.calls_to(r"Command::build$", r"generator::_generate$")
        res.check(bool(sb_) and bool(builds_) and all(gb_.block_dominates(sb_[0].bb, c.bb) and c.bb != sb_[0].bb for c in builds_), "R16.1", "bin-name-before-build|" + q.rsplit("::", 1)[1], gb_.where(),
                  "set_bin_name dominates every build/_generate", "%s builds the command before the requested bin name is set: subcommand bin names are derived from the wrong root, so the generated dispatch table and the per-level functions disagree" % q.rsplit("::", 1)[1])
    for q in ("clap_complete::aot::generator::generate", "clap_complete::aot::generator::generate_to"):
        b = fx.body(q)
        direct = b.calls_to(r"Generator>?::generate$")
        res.check(bool(b.calls_to(r"generator::_generate$")) and not direct, "R16.1", "entry-uses-_generate|" + q, b.where(), "%s goes through _generate" % q.rsplit("::", 1)[1],
                  "%s calls the generator directly, bypassing cmd.build()" % q.rsplit("::", 1)[1])

    # ---- R16.2 matrix
    allbodies = []
    for name, q in GENS.items():
        b = fx.body(q)
        pred = fx.reachable_from([b], crates={"clap_complete", "clap_complete_nushell"})
        bodies = [v[0] for v in pred.values()]
        allbodies += bodies
        reach = set()
        for bb in bodies:
            for c in bb.calls():
                if c.callee_q:
                    reach.add(c.callee_q)
                for q2 in c.fnitems:
                    reach.add(q2)
        res.floor("R16.2", "%s generator bodies" % name, len(bodies), 5)
        for kind, alts in NEED.items():
            ok = any(all(x in reach for x in alt) for alt in alts)
            if kind == "possible-values(visible)":
                pv = any(x in reach for x in (B + "arg::Arg::get_possible_values", "clap_complete::aot::generator::utils::possible_values"))
                names = (B + "possible_value::PossibleValue::get_name") in reach
                ok = pv and names
            res.check(ok, "R16.2", "matrix|%s|%s" % (name, kind), b.where(), "%s reaches %s" % (name, kind),
                      "the %s generator never reads %s (none of %s is reachable from its generate()): such items cannot be mentioned in the script" % (
                          name, kind, [" + ".join(y.rsplit("::", 1)[1] for y in alt) for alt in alts]))
    # hidden possible values filtered where listed
    up = fx.body("clap_complete::aot::generator::utils::possible_values")
    res.check(bool(up.calls_to(r"Arg::get_value_parser$|possible_values$")), "R16.2", "utils-possible_values", up.where(), "utils::possible_values reads the value parser's values", "utils::possible_values changed")
    # utils::subcommands / all_subcommands: names + visible aliases, recursion
    us = fx.body("clap_complete::aot::generator::utils::subcommands")
    missing = [n for n in (r"Command::get_name$", r"Command::get_visible_aliases$", r"Command::get_subcommands$") if not tree_calls(us, n)]
    res.check(not missing, "R16.2", "utils-subcommands", us.where(), "utils::subcommands pushes name and every visible alias", "utils::subcommands no longer reads %s" % missing)
    ua = fx.body("clap_complete::aot::generator::utils::all_subcommands")
    rec = tree_calls(ua, r"utils::all_subcommands$") or any("all_subcommands" in q for c in ua.calls() for q in c.fnitems)
    res.check(bool(rec) and bool(tree_calls(ua, r"utils::subcommands$")), "R16.2", "utils-all_subcommands-recursion", ua.where(), "all_subcommands recurses over get_subcommands", "all_subcommands no longer recurses")
    for fn_, need in (("shorts_and_visible_aliases", [r"Arg::get_visible_short_aliases$", r"Arg::get_short$"]), ("longs_and_visible_aliases", [r"Arg::get_visible_aliases$", r"Arg::get_long$"])):
        b = fx.body("clap_complete::aot::generator::utils::" + fn_)
        missing = [n for n in need if not tree_calls(b, n)]
        res.check(not missing, "R16.2", "utils-" + fn_, b.where(), "%s reads %s" % (fn_, [n.rstrip("$") for n in need]), "%s no longer reads %s" % (fn_, missing))

    # R16.2c sibling agreement: the AOT helper utils::possible_values and the dynamic engine's possible_values gate the
    # value list on the same predicate — the arg takes values (never on "a value is optional")
    sigs = {}
    for q in ("clap_complete::aot::generator::utils::possible_values", "clap_complete::engine::complete::possible_values"):
        b = fx.maybe_body(q)
        if b is None:
            continue
        preds = sorted(set(c.callee_q.rsplit("::", 1)[1] for c in b.calls_to(r"ValueRange::\w+$")))
        sigs[q] = preds
        res.check(preds == ["takes_values"], "R16.2", "possible_values-gate|" + q.rsplit("::", 2)[-2], b.where(), "possible values offered iff the arg takes values",
                  "%s gates the possible values on ValueRange::%s instead of takes_values(): args with an optional value lose their value list" % (q, preds))
    # ... and hand out the parser's list as it is (hidden values are the generators' / the engine's business, per value): nothing but the
    # takes-values gate may turn the list into None or shorten it
    PV_OK = {"Arg::get_num_args", "Arg::get_value_parser", "Iterator::collect", "Option::expect", "Option::map", "ValueParser::possible_values", "ValueRange::takes_values",
             "Option::unwrap", "Option::unwrap_or_default", "Option::then", "bool::then", "FromIterator::from_iter", "IntoIterator::into_iter"}
    for q in ("clap_complete::aot::generator::utils::possible_values", "clap_complete::engine::complete::possible_values"):
        b = fx.maybe_body(q)
        if b is None:
            continue
        used = sorted(set((c.callee_q or c.decl_q or "?").rsplit("::", 2)[-2].split("<")[0] + "::" + (c.callee_q or c.decl_q or "?").rsplit("::", 1)[1] for t in tree(b) for c in t.calls() if not sp_macro(c.sp)))
        extra = [u for u in used if u not in PV_OK]
        res.check(not extra, "R16.2", "possible_values-list-as-declared|" + q.rsplit("::", 2)[-2], b.where(), "possible_values = the value parser's list, gated on takes_values only",
                  "%s also applies %s to the list: values (or the whole list, e.g. as soon as one value is hidden) can disappear from every generated script" % (q, extra))
    if len(sigs) == 2:
        res.check(len(set(map(tuple, sigs.values()))) == 1, "R16.2", "possible_values-siblings-agree", "clap_complete", "AOT and dynamic helpers use the same gate", "AOT and dynamic possible_values helpers disagree: %s" % sigs)
    # R16.2f possible values are looked at before (never under) a value-hint test: an option with both keeps its value list
    npv = 0
    for b in fx.bodies(r"^clap_complete::aot::shells::|^clap_complete_nushell::"):
        for c in b.calls_to(r"utils::possible_values$"):
            npv += 1
            hint = [g for g in guard_strs(b, c.bb) if "get_value_hint" in g]
            res.check(not hint, "R16.2", "possible-values-before-hint|" + b.q.split("::", 3)[-1].split("{")[0].rstrip(":"), c.where(), "possible values consulted independently of the value hint",
                      "%s consults the possible values only under %s: an option with possible values and that hint loses its value list in the script" % (b.q, [g[:60] for g in hint]))
    res.floor("R16.2", "utils::possible_values call sites in the generators", npv, 3)
    # R16.3b bash: the word of a case arm is what the user types (name / visible alias verbatim); only the function name is mangled
    for b in fx.bodies(r"^clap_complete::aot::shells::bash::all_subcommands::add_command$"):
        pu = [c for c in b.calls_to(r"Vec::push$") if expr(b, c.args[0]) == "subcmds"]
        res.floor("R16.3", "case-table rows pushed by bash add_command", len(pu), 2)
        for c in pu:
            e = expr(b, c.args[1])
            m = re.match(r"^tuple\((?:to_string|to_owned|from|into|clone)\(parent_fn_name\),((?:to_string|to_owned|from|into)\((get_name\(cmd\)|next\(into_iter\(get_visible_aliases\(cmd\)\)\)#Some\.0)\)),", e)
            res.check(m is not None, "R16.3", "bash-case-word-verbatim|" + ("alias" if "aliases" in e[:120] else "name"), c.where(), "case word = %s" % (m.group(1) if m else "?"),
                      "bash case-table row is built from %s: the word compared with what the user typed is not the subcommand name / alias verbatim, so that spelling never selects its level" % e[:110])
    # R16.2e filters on item iterations in the generators consult only reviewed predicates (anything else can drop an item)
    import rules.c12 as c12
    SRC = c12.ITEM_SRC + r"|Command::(get_visible_aliases|get_all_aliases|get_visible_short_flag_aliases|get_visible_long_flag_aliases)$|Arg::(get_visible_aliases|get_visible_short_aliases|get_all_aliases)$|utils::(all_subcommands|subcommands|shorts_and_visible_aliases|longs_and_visible_aliases|flags|possible_values)$"
    OKP = r"(arg::Arg::is_positional|arg::Arg::get_\w+|range::ValueRange::takes_values|possible_value::PossibleValue::(is_hide_set|get_help|get_name|get_name_and_aliases)|shells::\w+::escape_\w+|command::Command::get_\w+)$"
    nfl = 0
    for b in fx.bodies(r"^clap_complete::aot::|^clap_complete_nushell::"):
        for c in b.calls_to(SRC):
            if not isinstance(c.dest, int):
                continue
            t = taint_forward(b, [c.dest], call_transfer=lambda cc, ta: 0 in ta and (cc.is_(c12.ADAPT) or cc.is_(r"Option::(unwrap|expect|unwrap_or_default)$")))
            for u in b.calls():
                if u.args and op_local(u.args[0]) in t and u.is_(r"Iterator::(filter|filter_map|take_while|skip_while|skip|take|step_by)$"):
                    nfl += 1
                    extra = sorted(set(cc.callee_q.split("::", 1)[1] for cb in closure_bodies(fx, u) for x in tree(cb) for cc in x.calls()
                                       if cc.callee_q and re.match(r"^clap_", cc.callee_q) and not sp_macro(cc.sp) and not re.search(OKP, cc.callee_q)))
                    trunc = u.is_(r"Iterator::(skip|take|step_by)$")
                    res.check(not extra and not trunc, "R16.2", "generator-filter|%s|%s" % (b.q.split("::", 2)[-1].split("{")[0], u.callee_q.rsplit("::", 1)[1]), u.where(),
                              "filter consults only positional/takes-value/hidden-value predicates", "generator %s %s the item list%s: options, values or subcommands can be left out of the script" % (
                                  b.q, "truncates" if trunc else "filters", "" if trunc else " with " + str(extra)))
    res.floor("R16.2", "filters on item iterations in the generators", nfl, 8)
    # R16.2d bash: the function name handed down as the children's parent_fn_name is the mangled one (it is what the
    # generated `case "$cmd,$word"` arms compare against)
    ac = [b for b in fx.bodies(r"^clap_complete::aot::shells::bash::all_subcommands::add_command$")]
    res.floor("R16.2", "bash add_command", len(ac), 1)
    for b in ac:
        recs = b.calls_to(r"bash::all_subcommands::add_command$")
        require(fx, res, "R16.2", "bash-recurses-into-subcommands", b, r"bash::all_subcommands::add_command$", len(recs), 1, "bash all_subcommands::add_command no longer recurses: nested subcommands get no completion function")
        for c in recs:
            t = strflow_tree(fx, b, c.args[0])
            okm = has_replace(t, "-", "__")
            res.check(okm, "R16.2", "bash-child-parent-name-mangled", c.where(), "children receive the mangled function name (replace('-', \"__\"))",
                      "bash: the name passed to children as parent_fn_name is not the mangled function name: `case` arms of deeper levels compare an unmangled prefix with the mangled $cmd and never match under a hyphenated parent")
        pushes = b.calls_to(r"Vec::push$")
        for c in pushes:
            e = expr(b, c.args[1])
            # third tuple element (fn_name) is the same mangled name
        res.check(bool(pushes), "R16.2", "bash-add_command-pushes", b.where(), "add_command records (parent, name, fn_name)", "add_command no longer records its entries")

    # R16.2b per-function census of alias-less getters in the generator modules: a generator function that reads the
    # canonical long/short/name must read the visible aliases as well, or be a listed exception
    EXC = {
        "clap_complete::aot::shells::fish::gen_subcommand_helpers": "argparse optspec for fish's own option parsing needs one spelling per option",
        "clap_complete::aot::shells::zsh::arg_conflicts::push_conflicts": "exclusion lists name the canonical spelling; aliases are added by the caller's own entries",
        "clap_complete::aot::shells::zsh::get_subcommands_of": "case label / function name of the canonical subcommand",
        "clap_complete::aot::shells::zsh::get_args_of": "function name of the canonical subcommand",
    }
    PAIR = {"get_long": r"Arg::(get_visible_aliases|get_long_and_visible_aliases)$", "get_short": r"Arg::(get_visible_short_aliases|get_short_and_visible_aliases)$",
            "get_name": r"Command::(get_visible_aliases|get_name_and_visible_aliases)$"}
    ncen = 0
    for b in fx.bodies(r"^clap_complete::aot::shells::(bash|zsh|fish|powershell|elvish)::|^clap_complete_nushell::"):
        top = b
        while top.parent is not None:
            top = top.parent
        for c in b.calls_to(r"clap_builder::builder::arg::Arg::get_long$", r"clap_builder::builder::arg::Arg::get_short$", r"clap_builder::builder::command::Command::get_name$"):
            if sp_macro(c.sp):
                continue   # debug! arguments
            ncen += 1
            g = c.callee_q.rsplit("::", 1)[1]
            paired = bool(tree_calls(top, PAIR[g]))
            res.check(paired or top.q in EXC, "R16.2", "alias-census|%s|%s" % (top.q, g), c.where(),
                      "%s paired with the visible-alias getter" % g if paired else "exception: %s" % EXC.get(top.q),
                      "%s reads %s() but never the visible aliases: aliases of this item kind are not mentioned by this generator function" % (top.q.rsplit("::", 1)[1], g))
    res.floor("R16.2", "alias-less getter uses in generator modules", ncen, 8)

    # ---- R16.3 separator agreement
    def lits_of(bodies, callee_rx, argi):
        out = []
        for b in bodies:
            for c in tree_calls(b, callee_rx):
                if len(c.args) > argi:
                    v = const_of(c.body, c.args[argi])
                    if v is not None:
                        out.append((v, c))
        return out
    bash = fx.bodies(r"^clap_complete::aot::shells::bash::")
    writers = [(v, c) for v, c in lits_of(bash, r"^str::replace$", 2) if const_of(c.body, c.args[1]) in ("-", " ")]
    readers = lits_of(bash, r"^str::split$", 1)
    res.floor("R16.3", "bash path-mangling writers", len(writers), 3)
    res.floor("R16.3", "bash path-mangling readers", len(readers), 2)
    seps = set(v for v, _ in writers) | set(v for v, _ in readers)
    res.check(seps == {"__"}, "R16.3", "bash-separator", "clap_complete::aot::shells::bash", "writer replace(_, %s) and reader split(%s) agree" % (sorted(set(v for v, _ in writers)), sorted(set(v for v, _ in readers))),
              "bash path mangling: writers use %s but readers split on %s" % (sorted(set(v for v, _ in writers)), sorted(set(v for v, _ in readers))))
    zsh = fx.bodies(r"^clap_complete::aot::shells::zsh::")
    zw = [(v, c) for v, c in lits_of(zsh, r"^str::replace$", 2) if const_of(c.body, c.args[1]) == " "]
    res.floor("R16.3", "zsh name mangling sites", len(zw), 3)
    # zsh reader: parser_of is an exhaustive search of the tree by bin_name (its callers expect() the result)
    po = fx.body("clap_complete::aot::shells::zsh::parser_of")
    recs = [c for t in tree(po) for c in t.calls_to(r"zsh::parser_of$")]
    require(fx, res, "R16.3", "zsh-parser_of-exhaustive", po, r"zsh::parser_of$", len(recs), 1, "zsh::parser_of no longer descends into the subcommands")
    for c in recs:
        cbody = c.body
        if cbody is po:
            bg = [g for g in guard_strs(po, c.bb) if re.match(r"^[TF]:", g) and not re.match(r"^F:eq\(bin_name,", g)]
            okr = not bg and expr(po, c.args[0]) == "next(into_iter(get_subcommands(parent)))#Some.0" and expr(po, c.args[1]) == "bin_name"
        else:
            # iterator form: parent.get_subcommands().find_map(|sc| parser_of(sc, bin_name))
            feed = closure_feed(fx, cbody)
            bg = [g for g in guard_strs(cbody, c.bb) if re.match(r"^[TF]:", g)]
            okr = bool(feed) and feed[1].is_(r"Iterator::find_map$") and feed[2] == "get_subcommands(parent)" and not bg
        res.check(okr, "R16.3", "zsh-parser_of-exhaustive", c.where(),
                  "every subcommand is searched", "zsh::parser_of searches a subcommand only under %s: a command whose path merely shares a prefix with a sibling is not found and the generator's expect() panics" % bg)
    early = [d for d in po.def_sites(0) if isinstance(d[3], dict) and d[3]["k"] == "agg" and d[3].get("variant") == "Some" and "parser_of(" in expr(po, d[3]["ops"][0])]
    other = [d for d in po.def_sites(0) if not isinstance(d[3], dict) and d[3].callee_q.endswith("parser_of")]
    res.check((not other or all(c.body is not po for c in recs)) and all(any(re.match(r"^V1:parser_of\(", g) for g in guard_strs(po, d[0])) for d in early), "R16.3", "zsh-parser_of-continues-on-none", po.where(),
              "a branch's result ends the search only when it is Some", "zsh::parser_of returns a branch's result even when it is None (the remaining siblings are not searched)")
    zs = set(v for v, _ in zw)
    res.check(zs <= {"__", "-", "\\ "} and sum(1 for v, _ in zw if v == "__") >= 3, "R16.3", "zsh-separator", "clap_complete::aot::shells::zsh", "zsh function names: replace(' ', %s)" % sorted(zs), "zsh name mangling uses inconsistent separators %s" % sorted(zs))

    # ---- R16.4 DET + PANIC
    seen = {}
    for b in allbodies:
        seen[id(b)] = b
    bodies = list(seen.values())
    nd = nondet_calls(fx, bodies)
    for c in nd:
        res.violation("R16.4", "nondet|" + c.body.q, c.where(), "nondeterminism source %s reachable from a generator" % c.callee_q)
    if not nd:
        res.ok("R16.4", "det|none", "generators", "%d bodies reachable from the six generators, no nondeterminism source" % len(bodies))
    inv = panics.inventory(fx, bodies, engine=vset.Engine(fx, max_depth=2))
    res.floor("R16.4", "panic sites in generators", len(inv), 10)
    aud = panics.load_audit(AUDIT)
    aud.update(panics.load_audit(AUDIT.replace("panic.tsv", "c16.tsv")))
    panics.apply_audit(res, "R16.4", inv, aud)
