"""C20 — text wrapping keeps every word, in order, within the requested width."""
import os, re
from rulekit import *
import panics, vset

EXPLANATION = (
    "R20.1 content-preservation effects: in LineWrapper::wrap the only mutations of the word list are insert(i, \"\\n\"), "
    "insert(i, carryover) and words[last] = words[last].trim_end(); no remove/truncate/clear/drain/pop/retain/swap/sort; "
    "carryover is only assigned \"\" or the first word on the word.trim().is_empty() edge, and reset() clears it. "
    "textwrap::wrap and StyledStr::wrap build their output only from the wrapper's result and verbatim slices of the input "
    "(extend/push_str of those, one final trim_end). R20.2 UTF-8 boundary provenance of every string slice in "
    "find_words_ascii_space (char_indices indices of the same line) and StyledStr::wrap (offsets of sub-slices yielded by "
    "iter_text). R20.3 PANIC/P9 over textwrap/* and StyledStr::wrap. R20.4 display_width skips from an ASCII control "
    "character to the next `m` and otherwise sums per-char widths. R20.5 break placement: \"\\n\" is inserted only for i != 0 and hard_width < line_width + word_width, and line_width is reset before the carried-over indent is re-emitted and counted. NOT decided: the width bound and word order for all "
    "strings and widths (needs execution)."
    " R20.5c (name-independent): a newline is inserted only under a condition over a position inside the current call (not only over the wrapper's carried state)."
    ' R20.4b (added): ch_width (unicode configuration) is UnicodeWidthChar::width(ch).unwrap_or(0) on every path.'
)
TRUSTED = ["rustc MIR", "clapfacts", "lib/panics.py", "audit/panic.tsv", "anstream::adapter::strip_str yields sub-slices of its input in order"]
ASSUMPTIONS = ["str::trim_end / split_inclusive / char_indices behave as documented"]
AUDIT = os.path.join(os.path.dirname(os.path.dirname(os.path.abspath(__file__))), "audit", "panic.tsv")

MUTATORS = r"std::vec::Vec::(remove|truncate|clear|drain|pop|retain|retain_mut|swap_remove|dedup|dedup_by|dedup_by_key|split_off|resize|set_len|sort|sort_by|sort_by_key|reverse|rotate_left|rotate_right|splice|append|extend_from_slice|push)$|\[T\]::(swap|reverse|sort|sort_unstable|rotate_left|rotate_right|fill)$"


def run(ctx):
    fx, res = ctx.fx, ctx.res
    # ---- R20.4b the per-character width is the width table's answer and nothing else (unicode configuration): a shortcut that
    # returns a constant for a class of characters under-measures the wide members of that class (Hangul Jamo are alphabetic and 2 wide)
    for cw in fx.bodies(r"^clap_builder::output::textwrap::core::ch_width$"):
        if cw.calls_to(r"UnicodeWidthChar>?::width$|unicode_width::"):
            e = strip_transparent(expr(cw, 0))
            defs = [d for d in cw.def_sites(0) if d[0] in cw.reachable(0) and not cw.blocks[d[0]]["cleanup"]]
            okw = len(defs) == 1 and re.fullmatch(r"unwrap_or\(width\(ch\),0\)|unwrap_or_default\(width\(ch\)\)", e) is not None
            if not okw and len(defs) >= 1:
                # the `match width(ch) { Some(w) => w, None => 0 }` form: every result is the table's payload, or 0 on the table's None edge
                def one(d):
                    rv = d[3]
                    if not isinstance(rv, dict) or rv["k"] != "use":
                        return False
                    if op_int(rv["op"]) == 0:
                        return any(re.match(r"^(V0|!V1):width\(ch\)$", g) for g in guard_strs(cw, d[0]))
                    return re.fullmatch(r"width\(ch\)#Some\.0", expr(cw, rv["op"])) is not None
                okw = all(one(d) for d in defs)
            res.check(okw, "R20.4", "ch_width-is-table-width", cw.where(), "ch_width = UnicodeWidthChar::width(ch).unwrap_or(0)",
                      "ch_width has %d result definitions (%s): a path that does not ask the width table decides the width of some characters" % (len(defs), e[:80]))
    lw = fx.body("clap_builder::output::textwrap::wrap_algorithms::LineWrapper::wrap")
    # ---- R20.5c (name-independent) a line break needs a position INSIDE this call: `wrap` is called once per text block of a styled line
    # without a reset in between, so a test on the wrapper's own state (self.line_width != 0) is true at the start of a block that
    # continues a word — only a call-local counter / the emitted list can say "a word of this block came before"
    nl = [c for c in lw.calls_to(r"Vec(<[^>]*>)?::(insert|push)$") if const_of(lw, c.args[-1]) == "\n"]
    for c in nl:
        gl = [g for g in guard_strs(lw, c.bb) if re.match(r"^[TF]:", g)]
        local = [g for g in gl if "self." not in g]
        res.check(bool(local), "R20.5", "effect|break-needs-call-local-position", c.where(), "the newline is inserted only after a word of the same call (%s)" % local[:1],
                  "LineWrapper::wrap inserts a line break under %s: every condition is over the wrapper's state, none over a position inside this call — when a styled line is wrapped block by block the first word of a block (possibly the tail of a word) is moved to a new line" % gl)
    res.floor("R20.5", "newline insertions in LineWrapper::wrap", len(nl), 1)
    words = lw.locals_named("words")
    res.floor("R20.1", "`words` local in LineWrapper::wrap", len(words), 1)
    # calls taking &mut words
    muts = []
    for c in lw.calls():
        if not c.args:
            continue
        e0 = expr(lw, c.args[0])
        if e0 != "words":
            continue
        q = c.callee_q or ""
        ty = lw.local_ty(op_local(c.args[0])) if op_place(c.args[0]) is not None else ""
        if ty.startswith("&mut") or re.search(r"IndexMut|deref_mut", q):
            muts.append(c)
    ins = [c for c in muts if re.search(r"Vec::insert$", c.callee_q or "")]
    res.floor("R20.1", "insertions into the word list", len(ins), 2)
    for c in muts:
        q = c.callee_q or ""
        if re.search(r"Vec::insert$", q):
            v = expr(lw, c.args[2])
            okv = v in ("'\\n'",) or re.fullmatch(r"self\.carryover#Some\.0", v) is not None
            res.check(okv, "R20.1", "insert-value|%s" % ("newline" if v == "'\\n'" else "carryover" if "carryover" in v else "other"), c.where(),
                      "insert(i, %s)" % v, "LineWrapper::wrap inserts %s into the word list (only \"\\n\" and the carry-over indent may be added)" % v)
        elif re.search(r"IndexMut.*index_mut$|deref_mut$", q):
            res.ok("R20.1", "mutator|index_mut", c.where(), "indexed write (checked below)")
        else:
            res.check(not re.search(MUTATORS, q), "R20.1", "mutator|" + q.rsplit("::", 1)[1], c.where(), "non-destructive %s" % q,
                      "LineWrapper::wrap mutates the word list with %s: words may be dropped, duplicated or reordered" % q)
    # indexed writes: words[last] = words[last].trim_end()
    iw = [(i, s) for i, j, s in lw.stmts() if s["k"] == "assign" and not isinstance(s["place"], int) and s["place"][-1] == "*" and
          re.match(r"^index_mut\(words,", expr(lw, s["place"][0]))]
    res.floor("R20.1", "indexed writes into the word list", len(iw), 1)
    for i, s in iw:
        dst = expr(lw, s["place"][0])
        val = expr(lw, s["rv"]["op"]) if s["rv"]["k"] == "use" else "?"
        m = re.fullmatch(r"index_mut\(words,(.*)\)", dst)
        okw = m is not None and val == "trim_end(index(words,%s))" % m.group(1)
        res.check(okw, "R20.1", "indexed-write", "%s in %s" % (sp_str(s["sp"]), lw.q), "%s = %s" % (dst, val),
                  "word list slot overwritten with %s (only its own trim_end() is content-preserving)" % val)
    # carryover writes
    cw = []
    for i, s in writes_field(lw, "carryover"):
        # `self.carryover = match .. { .. }`: one write per arm value
        lv = value_leaves(lw, s["rv"]["op"]) if s["rv"]["k"] == "use" else None
        cw.extend([(bb_, dict(sp=s["sp"], rv=rv_)) for bb_, rv_ in lv if isinstance(rv_, dict)] if lv else [(i, s)])
    res.floor("R20.1", "carryover writes in wrap", len(cw), 2)
    for i, s in cw:
        if s["rv"]["k"] == "agg" and s["rv"].get("variant") == "None" and has_bool(lw, i, "T", r"^is_none\(self\.carryover\)$"):
            res.ok("R20.1", "carryover|none-when-none", "%s in %s" % (sp_str(s["sp"]), lw.q), "carryover = None where it is None already")
            continue
        val = expr(lw, s["rv"]["op"]) if s["rv"]["k"] == "use" else expr(lw, s["rv"]["ops"][0]) if s["rv"]["k"] == "agg" and s["rv"]["ops"] else "?"
        if s["rv"]["k"] == "agg":
            val = "Some(%s)" % val
        val = val.replace("Option::Some", "Some")
        okc = val in ("Some('')",) or (re.fullmatch(r"Some\(first\(.*words.*\)#Some\.0\)", val) is not None and has_bool(lw, i, "T", r"^is_empty\(trim\(first\(")) \
            or (re.search(r"first\(", val) and has_bool(lw, i, "T", r"^is_empty\(trim\("))
        res.check(bool(okc), "R20.1", "carryover|%s" % ("empty" if "''" in val else "first-word"), "%s in %s" % (sp_str(s["sp"]), lw.q), "carryover = %s" % val,
                  "carryover assigned %s outside the blank-first-word case" % val)
    rs = fx.body("clap_builder::output::textwrap::wrap_algorithms::LineWrapper::reset")
    res.check(len(writes_field(rs, "carryover")) == 1 and len(writes_field(rs, "line_width")) == 1, "R20.1", "reset", rs.where(), "reset clears line_width and carryover", "LineWrapper::reset changed")
    # textwrap::wrap: output = join("") of extend(wrapper.wrap(find_words(line)))
    tw = fx.body("clap_builder::output::textwrap::wrap")
    ext = tw.calls_to(r"Extend(<[^>]*>)?>?::extend$")
    # iterator form of the same loop: content.split_inclusive('\n').flat_map(|line| { wrapper.reset(); wrapper.wrap(find_words(line).collect()) }).collect()
    fmap = [c for c in tw.calls_to(r"Iterator>?::flat_map$") if re.fullmatch(r"split_inclusive\(content,(10|'\\n')\)", expr(tw, c.args[0]))]
    for c in fmap:
        rets = [expr(cb, 0) for cb in own_closures(fx, c)]
        okm = bool(rets) and all(re.fullmatch(r"wrap\(.*,collect\(find_words_ascii_space\(\w+\)\)\)", r_) is not None for r_ in rets)
        res.check(okm, "R20.1", "textwrap-wrap-source", c.where(), "split_inclusive('\\n').flat_map(|line| wrapper.wrap(find_words(line)))",
                  "textwrap::wrap output is no longer just the wrapped words of each input line: %s" % rets)
    require(fx, res, "R20.1", "textwrap-wrap-source", tw, r"Extend(<[^>]*>)?>?::extend$", len(ext) + len(fmap), 1, "textwrap::wrap no longer appends the wrapped words of each line to its output", local_callee=False)
    for c in ext:
        e = expr(tw, c.args[1])
        res.check(re.fullmatch(r"wrap\(.*,collect\(find_words_ascii_space\(.*split_inclusive\(content,(10|'\\n')\).*\)\)\)", e) is not None, "R20.1", "textwrap-wrap-source", c.where(),
                  "total.extend(wrapper.wrap(find_words(line)))", "textwrap::wrap output is no longer just the wrapped words of each input line: %s" % e[:120])
    jn = tw.calls_to(r"::join$|Join<[^>]*>>::join$")
    res.check(len(jn) == 1 and const_of(tw, jn[0].args[1]) == "", "R20.1", "textwrap-wrap-join", tw.where(), "result = total.join(\"\")", "textwrap::wrap no longer concatenates the words verbatim")
    # StyledStr::wrap
    sw = fx.body("clap_builder::builder::styled_str::StyledStr::wrap")
    pushes = sw.calls_to(r"String::push_str$")
    require(fx, res, "R20.1", "styled-wrap-verbatim|count", sw, r"String::push_str$", len(pushes), 2, "StyledStr::wrap no longer copies both the styling bytes between text runs and the tail verbatim", local_callee=False)
    for c in pushes:
        e = expr(sw, c.args[1])
        res.check(re.match(r"^index\(as_str\(self\.0\),Range(From)?::Range(From)?\(", e) is not None, "R20.1", "styled-wrap-verbatim|" + ("range" if "Range::Range" in e else "tail"), c.where(),
                  "styling bytes copied verbatim: %s" % e[:70], "StyledStr::wrap pushes something other than a verbatim slice of the input: %s" % e[:120])
    exs = sw.calls_to(r"Extend(<[^>]*>)?>?::extend$")
    for c in exs:
        e = expr(sw, c.args[1])
        res.check(re.match(r"^wrap\(.*collect\(find_words_ascii_space\(", e) is not None, "R20.1", "styled-wrap-words", c.where(), "new.extend(wrapper.wrap(find_words(line)))",
                  "StyledStr::wrap extends the output with %s" % e[:120])
    require(fx, res, "R20.1", "styled-wrap-words", sw, r"Extend(<[^>]*>)?>?::extend$", len(exs), 1, "StyledStr::wrap no longer appends the wrapped words to its output", local_callee=False)
    itx = sw.calls_to(r"StyledStr::iter_text$")
    res.check(bool(itx) and not sw.must_pass([c.bb for c in itx]), "R20.1", "styled-wrap-no-shortcut", sw.where(), "every path through StyledStr::wrap walks the text runs",
              "StyledStr::wrap can return without walking its text (an early `already fits` exit): multi-line text is then never wrapped, produced lines can exceed the width")
    res.check(not sw.calls_to(r"String::(remove|truncate|clear|drain|pop|retain|replace_range)$"), "R20.1", "styled-wrap-no-removal", sw.where(), "no destructive String op", "StyledStr::wrap removes text from its output buffer")

    # ---- R20.5 break placement and width accounting (necessary for the width bound / for breaking only between words)
    nl = [c for c in ins if expr(lw, c.args[2]) == "'\\n'"]
    res.floor("R20.5", "newline insertion", len(nl), 1)
    for c in nl:
        cf = cmp_facts(lw, c.bb)
        ok1 = ("Ne", "i", "0") in cf or ("Gt", "i", "0") in cf
        ok2 = any(o == "Lt" and a == "self.hard_width" and re.match(r"^Add\(self\.line_width,", b_) for (o, a, b_) in cf)
        res.check(ok1, "R20.5", "break-only-between-words", c.where(), "a break is inserted only before a word that is not the first of the list (i != 0)",
                  "a line break can be inserted before the first word of a chunk (guards %s): text glued to the previous chunk would be split" % sorted(x for x in cf if x[0] in ("Ne", "Gt"))[:3])
        res.check(ok2, "R20.5", "break-only-when-too-wide", c.where(), "break only when hard_width < line_width + word_width", "break condition no longer compares hard_width with line_width + word_width")
    zero = [(i, j) for i, j, s_ in lw.stmts() if s_["k"] == "assign" and not isinstance(s_["place"], int) and any(isinstance(el, str) and el.startswith(".line_width@") for el in s_["place"][1:]) and s_["rv"]["k"] == "use" and op_int(s_["rv"]["op"]) == 0]
    res.floor("R20.5", "line_width reset in wrap", len(zero), 1)
    car = [c for c in ins if "carryover" in expr(lw, c.args[2])]
    for (zi, zj) in zero:
        okz = all(lw.block_dominates(zi, c.bb) and zi != c.bb or (zi == c.bb) for c in nl) and all(lw.block_dominates(zi, c.bb) and not lw.reaches(c.bb, zi, without_blocks=()) or lw.block_dominates(zi, c.bb) for c in car)
        # the reset must come BEFORE the carry-over width is added: no path from the carry-over insertion back to the reset within the same iteration
        after = any(c.target is not None and zi in lw.reachable(c.target, without_blocks=tuple(x.bb for x in lw.calls_to(r"Vec::len$|\[T\]::len$"))) and not lw.block_dominates(zi, c.bb) for c in car)
        res.check(okz and not after and all(lw.block_dominates(zi, c.bb) for c in car + nl), "R20.5", "width-reset-before-indent", "%s bb%d" % (lw.where(), zi),
                  "line_width = 0 precedes the re-emitted indent (whose width is then added)", "line_width is reset after the carried-over indent was inserted: the indent is not counted in the new line's width")

    # ---- R20.2 boundary provenance (slices)
    fw = fx.bodies(r"^clap_builder::output::textwrap::word_separators::find_words_ascii_space")
    idx = [c for b in fw for bb in tree(b) for c in bb.calls_to(r"str as std::ops::index::Index>::index$", r"ops::index::Index>::index$")]
    seen = 0
    for c in {id(c): c for c in idx}.values():
        b = c.body
        if not c.targs or "str" not in c.targs[0]:
            continue
        seen += 1
        e = expr(b, c.args[1])
        ok = re.fullmatch(r"Range::Range\(arg1\.\d,next\(.*by_ref\(arg1\.\d\).*\)#Some\.0\.0\)", e) is not None or re.fullmatch(r"RangeFrom::RangeFrom\(arg1\.\d\)", e) is not None
        res.check(ok, "R20.2", "boundary|find_words|" + ("range" if e.startswith("Range::") else "tail"), c.where(), "slice bounds are char_indices() indices / the running start: %s" % e[:80],
                  "string slice in find_words_ascii_space with a bound that is not a char_indices() index: %s" % e[:120])
    res.floor("R20.2", "string slices in find_words_ascii_space", seen, 2)
    # `start` is only ever assigned a char_indices index or line.len()
    for b in fw:
        for bb in tree(b):
            for i, j, s in bb.stmts():
                if s["k"] == "assign" and not isinstance(s["place"], int) and s["place"][-1] == "*" and s["rv"]["k"] == "use":
                    dst = expr(bb, s["place"][0])
                    val = expr(bb, s["rv"]["op"])
                    if re.fullmatch(r"arg1\.3", dst):
                        res.check(re.search(r"#Some\.0\.0$", val) is not None or re.fullmatch(r"len\(arg1\.2\)", val) is not None, "R20.2", "start-writer", "%s in %s" % (sp_str(s["sp"]), bb.q),
                                  "start := %s" % val, "`start` assigned %s (not a char boundary by construction)" % val)

    # ---- R20.3 PANIC over textwrap + StyledStr::wrap/display_width
    bodies = fx.bodies(r"^clap_builder::output::textwrap::") + [sw] + fx.bodies(r"^clap_builder::builder::styled_str::StyledStr::(display_width|iter_text|indent|trim_start_lines)")
    bodies = [b for x in bodies for b in tree(x)]
    inv = panics.inventory(fx, list({id(b): b for b in bodies}.values()))
    res.floor("R20.3", "panic sites in wrapping code", len(inv), 12)
    panics.apply_audit(res, "R20.3", inv, panics.load_audit(AUDIT))

    # ---- R20.4 display_width
    dw = fx.body("clap_builder::output::textwrap::core::display_width")
    cs = dw.locals_named("control_sequence")
    res.floor("R20.4", "control_sequence flag", len(cs), 1)
    sets = [(i, s) for i, j, s in dw.stmts() if s["k"] == "assign" and s["place"] in cs and s["rv"]["k"] == "use" and op_int(s["rv"]["op"]) is not None]
    on = [i for i, s in sets if op_int(s["rv"]["op"]) == 1 and i != 0]
    off = [i for i, s in sets if op_int(s["rv"]["op"]) == 0 and not dw.block_dominates(i, dw.calls()[0].bb)]
    nonloop = lambda i: [g for g in guard_strs(dw, i) if not re.match(r"^V\d+:next\(", g)]
    ok_on = bool(on) and all(len(nonloop(i)) == 1 and re.match(r"^T:is_ascii_control\(next\(", nonloop(i)[0]) for i in on)
    ok_off = bool(off) and all(any(p == "T" and re.search(r"^Eq\(.*,'?m'?\)|^eq\(", e) or p == "T" and "109" in e for p, e in bool_facts(dw, i)) for i in off)
    res.check(ok_on, "R20.4", "control-on", dw.where(), "control_sequence := true only on is_ascii_control()", "display_width enters escape-sequence mode under a different condition")
    res.check(ok_off, "R20.4", "control-off", dw.where(), "control_sequence := false only on the terminating 'm'", "display_width leaves escape-sequence mode under a different condition: %s" % [bool_facts(dw, i) for i in off])
    adds = [c for c in dw.calls_to(r"textwrap::core::ch_width$")]
    res.check(len(adds) == 1 and has_bool(dw, adds[0].bb, "F", r"control_sequence"), "R20.4", "width-sum", dw.where(), "ch_width added only outside escape sequences", "display_width counts characters inside escape sequences (or none at all)")
