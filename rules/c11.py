"""C11 — parsing is deterministic, re-entrant and independent of build timing."""
import re
from rulekit import *

EXPLANATION = (
    "R11.1 one-shot build: in Command::_build_self every call that mutates the definition (_propagate, "
    "_check_help_and_version, _propagate_global_args, Arg::_build, MKeyMap::_build, group filling, settings.set of derived "
    "settings) is dominated by the !is_set(Built) edge and that region ends in settings.set(Built) on every path; "
    "_build_bin_names_internal likewise under BinNameBuilt; those mutating helpers have no caller outside the guarded "
    "region. R11.2 parse-path write census: fields of Command written by functions reachable from "
    "try_get_matches_from_mut outside a Built-guarded region are exactly {name, bin_name, usage_name, display_name} (the "
    "per-parse program-name bookkeeping), display_name only when it is None. R11.3 DET(parse): no nondeterminism source "
    "(HashMap iteration, time, env, thread id, randomness) is reachable from the parse entry points outside the frozen "
    "exceptions (terminal size / COLUMNS for help wrapping; Arg::env at definition time); ArgMatcher::new starts from "
    "ArgMatches::default(). R11.4 name twins agree: Command::_build_subcommand (per parse) and "
    "Command::_build_bin_names_internal (build()) compute a subcommand's usage_name / bin_name from the parent's bin_name "
    "and its display_name from the parent's display_name, and _build_subcommand assigns usage_name and bin_name on every "
    "path (never skipped for an already-built subcommand). R11.5 clones are faithful: every Clone impl of a clap_builder type is derive-generated, or (hand-written) builds the value field by field from clone()/copies of the same fields of self, or is in the reviewed list (ValueParser: re-boxes the inner parser through clone_any) — a clone that drops build-time state (e.g. the key cache while the Built flag is copied) parses differently from its original. R11.6 a one-shot (Built-guarded) computation must not depend on a parameter that differs between its callers: whoever builds first would decide the result for everybody (memoisation without the parameter in the key). R11.7 who may write the names: Command::bin_name / display_name / usage_name are written only by the reviewed functions (explicit setters, argv[0] capture in try_get_matches_from_mut, and the twin builders) — e.g. build() seeding the root's bin_name would make every later parse ignore argv[0]. R11.8 the private clone-and-build of the flatten_help renderers is unconditional (it depends on has_visible_subcommands / is_flatten_help_set only, not on the Built state an earlier parse may have left). NOT decided: equality of results across histories."
    " R11.1 lemma (added): inside the library the whole-tree build passes (Command::build, _build_recursive, _build_bin_names_internal) run only on a local clone or from the build passes themselves. R11.A accessor layer (lib/accessors.py): for the is_*_set / get_* accessors this property's rules name — the bool builder sets and unsets one flag on the right edges and the predicate reads that same flag; builder scope (global/local) as in audit/setting_scope.tsv; no two predicates/builders share a flag; setting/unset_setting/global_setting/is_set forward to the right flag word, the flag word is |=bit / &=!bit / &bit!=0 with bit = 1<<discriminant, _propagate_subcommand hands g_settings to the child's settings and g_settings; plain field getters return their field."
)
TRUSTED = ["rustc MIR", "clapfacts", "call graph with trait fan-out"]
ASSUMPTIONS = ["user closures (value parsers, deferred commands) are deterministic"]

CMD = "clap_builder::builder::command::Command::"
DET_EXC = {
    "clap_builder::output::help_template::dimensions": "terminal size is an input of help wrapping (documented); the parse result does not depend on it",
    "clap_builder::output::help_template::parse_env": "COLUMNS/LINES fallback of the same",
    "clap_builder::builder::arg::Arg::env_os": "Arg::env reads the environment once at definition time",
    "clap_builder::builder::arg::Arg::env": "Arg::env reads the environment once at definition time",
    "clap_builder::builder::command::Command::get_matches": "std::env::args_os at the by-value entry point",
    "clap_builder::builder::command::Command::get_matches_mut": "std::env::args_os",
    "clap_builder::builder::command::Command::try_get_matches": "std::env::args_os",
}


def run(ctx):
    fx, res = ctx.fx, ctx.res
    import lemmas
    lemmas.full_build_only_on_clones(fx, res, "R11.1")
    bs = fx.body(CMD + "_build_self")
    built_guard = r"is_set\(self\.settings,.*Built"
    muts = bs.calls_to(r"Command::_propagate$", r"Command::_check_help_and_version$", r"Command::_propagate_global_args$", r"builder::arg::Arg::_build$", r"MKeyMap::_build$",
                       r"AppFlags::set$", r"ArgFlags::set$", r"Vec::push$", r"debug_asserts::assert_app$")
    res.floor("R11.1", "mutating calls in _build_self", len(muts), 10)
    for c in muts:
        ok = has_bool(bs, c.bb, "F", built_guard)
        res.check(ok, "R11.1", "guarded|%s" % c.callee_q.rsplit("::", 2)[-2] + "::" + c.callee_q.rsplit("::", 1)[1], c.where(), "only on the !Built edge",
                  "%s runs on every call of _build_self (not only the first): rebuilding would change the definition" % c.callee_q.rsplit("::", 1)[1])
    setb = [c for c in bs.calls_to(r"AppFlags::set$") if "Built" in agg_variants(bs, c.args[1]) and "BinNameBuilt" not in agg_variants(bs, c.args[1])]
    isb = [c for c in bs.calls_to(r"AppFlags::is_set$") if "Built" in agg_variants(bs, c.args[1])]
    if isb and not setb:
        res.violation("R11.1", "region-ends-with-set-built", bs.where(), "_build_self tests Built but never sets it: the definition is rebuilt (args re-derived, globals re-propagated) on every parse")
    else:
        res.floor("R11.1", "settings.set(Built)", len(setb), 1)
    if setb and isb:
        br = bs.call_branch(isb[0])
        okp = False
        if br:
            # every path from the !Built edge to return passes set(Built)
            okp = not bs.must_pass([c.bb for c in setb], frm=br[2])
        res.check(okp, "R11.1", "region-ends-with-set-built", setb[0].where(), "every path through the build region sets Built", "_build_self can leave the build region without setting Built (it would rebuild next time)")
    bn = fx.body(CMD + "_build_bin_names_internal")
    wr = [(i, s) for f in ("usage_name", "bin_name", "display_name") for i, s in writes_field(bn, f)]
    res.floor("R11.1", "name writes in _build_bin_names_internal", len(wr), 3)
    for i, s in wr:
        res.check(has_bool(bn, i, "F", r"is_set\(self,.*BinNameBuilt|is_set\(.*BinNameBuilt"), "R11.1", "bin-names-guarded", "%s in %s" % (sp_str(s["sp"]), bn.q), "only on the !BinNameBuilt edge", "bin names rebuilt on every build()")
    sb2 = [c for c in bn.calls_to(r"Command::set$", r"AppFlags::set$") if "BinNameBuilt" in agg_variants(bn, c.args[1])]
    res.check(bool(sb2), "R11.1", "sets-BinNameBuilt", bn.where(), "BinNameBuilt set after building names", "_build_bin_names_internal never sets BinNameBuilt")
    # helpers only called from the guarded region
    for rx in (r"Command::_propagate$", r"Command::_check_help_and_version$", r"Command::_propagate_global_args$", r"MKeyMap::_build$"):
        cs = [c for b in fx.bodies(r"^clap_builder::") for c in b.calls_to("clap_builder::.*" + rx.split("::", 1)[1] if False else rx)]
        outside = [c for c in cs if not c.body.q.endswith("Command::_build_self")]
        res.check(bool(cs) and not outside, "R11.1", "single-caller|" + rx.rstrip("$").rsplit("::", 1)[1], bs.where(), "only called from _build_self", "%s also called from %s" % (rx, [c.body.q for c in outside]))

    # ---- R11.2 write census on the parse path
    ent = [fx.body(CMD + "try_get_matches_from_mut")]

    _tests_built = {}

    def follow(b, c):
        # calls made inside a one-shot (Built / BinNameBuilt guarded) region are not part of the per-parse path
        k = id(b)
        if k not in _tests_built:
            _tests_built[k] = bool(b.calls_to(r"::is_set$"))
        if not _tests_built[k]:
            return True
        return not has_bool(b, c.bb, "F", r"Built")
    bodies = reach_calls(fx, ent, follow=follow, crates={"clap_builder"}, stop=lambda b: "::debug_asserts::" in b.q)
    written = {}
    for b in bodies:
        if b.crate.name != "clap_builder":
            continue
        for i, j, s in b.stmts():
            if s["k"] != "assign" or isinstance(s["place"], int):
                continue
            for el in s["place"][1:]:
                if isinstance(el, str) and el.startswith(".") and el.endswith("@clap_builder::builder::command::Command"):
                    fld = el[1:].split("@")[0]
                    # inside a Built/BinNameBuilt-guarded region?
                    guarded = has_bool(b, i, "F", r"Built")
                    # builder-style setters (pub fn taking self by value) are definition-time API, not parse path
                    if b.q.startswith(CMD) and b.d.get("vis") == "Public" and b.local_ty(1) in ("clap_builder::builder::command::Command",):
                        continue
                    if not guarded:
                        written.setdefault(fld, set()).add(b.q)
                    break
    allowed = {"name", "bin_name", "usage_name", "display_name"}
    # `*self = deferred(take(self))` and mem::take are whole-value writes inside the Built region: not field writes
    for fld, fns in sorted(written.items()):
        res.check(fld in allowed, "R11.2", "parse-path-write|" + fld, sorted(fns)[0], "Command::%s written per parse by %s" % (fld, sorted(f.rsplit("::", 1)[1] for f in fns)),
                  "Command::%s is written on the parse path outside the one-shot build (%s): a second parse of the same Command can behave differently" % (fld, sorted(fns)))
    res.floor("R11.2", "bodies reachable from try_get_matches_from_mut outside one-shot regions", len(bodies), 500)
    res.check(allowed & set(written) != set(), "R11.2", "census-nonempty", ent[0].where(), "per-parse writes found: %s" % sorted(written), "census found no per-parse writes (anchor drift)")
    # &mut access to the definition on the parse path: only the build entry points (all idempotent through their guards, R11.1)
    MUT_OK = r"Command::(_build_bin_names_internal|_build_recursive|_build_self|_build_subcommand|_do_parse|build|get_subcommands_mut|find_subcommand_mut|try_get_matches_from_mut)$|parser::Parser::new$"
    DEF_TY = r"^&mut clap_builder::(builder::(command::Command|arg::Arg|arg_group::ArgGroup)|mkeymap::MKeyMap)$"
    nm = 0
    seen_mut = set()
    targets = {}
    for tb in fx.crate("clap_builder").bodies:
        if tb.argc >= 1 and re.match(DEF_TY, tb.local_ty(1) or ""):
            targets.setdefault(tb.q, tb)
    for b in bodies:
        for c in b.calls():
            cb = targets.get(c.callee_q)
            if cb is None or not follow(b, c):
                continue
            nm += 1
            if re.search(MUT_OK, cb.q):
                seen_mut.add(cb.q)
                continue
            res.violation("R11.2", "parse-path-mut|" + cb.q.split("::", 2)[-1], c.where(), "%s takes the definition by &mut and is called on the parse path outside the one-shot build (from %s): a second parse can see a changed definition" % (cb.q, b.q))
        for i, j, s_ in b.stmts():
            if s_["k"] != "assign" or isinstance(s_["place"], int):
                continue
            for el in s_["place"][1:]:
                if isinstance(el, str) and el.startswith(".") and re.search(r"@clap_builder::(builder::(arg::Arg|arg_group::ArgGroup)|mkeymap::MKeyMap)$", el) and not has_bool(b, i, "F", r"Built"):
                    if b.d.get("vis") == "Public" and (b.local_ty(1) or "").startswith("clap_builder::builder::"):
                        continue
                    res.violation("R11.2", "parse-path-write|%s" % el.split("@")[1].rsplit("::", 1)[1] + el.split("@")[0], "%s in %s" % (sp_str(s_["sp"]), b.q), "%s is written on the parse path outside the one-shot build" % el)
    res.ok("R11.2", "parse-path-mut|census", ent[0].where(), "%d &mut-definition calls on the parse path, all build entry points: %s" % (nm, sorted(q.rsplit("::", 1)[1] for q in seen_mut)))
    res.floor("R11.2", "&mut-definition calls on the parse path", nm, 10)
    bsc = fx.body(CMD + "_build_subcommand")
    dn = writes_field(bsc, "display_name")
    for i, s in dn:
        res.check(any(re.match(r"^(T:is_none\(.*display_name|V0:.*display_name)", g) for g in guard_strs(bsc, i)), "R11.2", "display_name-only-if-none", "%s in %s" % (sp_str(s["sp"]), bsc.q), "display_name filled only when None", "display_name overwritten on every parse")

    # ---- R11.3 DET
    ent2 = [fx.body(CMD + "try_get_matches_from_mut"), fx.body(CMD + "build")] + fx.bodies(r"^" + re.escape(CMD) + r"(render_help|render_long_help|render_usage)$")
    pred2 = fx.reachable_from(ent2, stop=lambda b: "::debug_asserts::" in b.q, crates={"clap_builder", "clap_lex"})
    bodies2 = [v[0] for v in pred2.values()]
    nd = nondet_calls(fx, bodies2)
    for c in nd:
        top = c.body
        while top.parent is not None:
            top = top.parent
        if top.q in DET_EXC:
            res.audited("R11.3", "det-exception|" + top.q, c.where(), DET_EXC[top.q])
        else:
            res.violation("R11.3", "nondet|%s|%s" % (top.q, (c.callee_q or "").rsplit("::", 2)[-2]), c.where(),
                          "nondeterminism source %s reachable from parse/build/render: %s" % (c.callee_q, " -> ".join(fx.path_to(pred2, c.body)[-4:])))
    res.ok("R11.3", "det|scanned", ent2[0].where(), "%d bodies scanned for nondeterminism sources" % len(bodies2))
    an = fx.body("clap_builder::parser::arg_matcher::ArgMatcher::new")
    res.check(bool(an.calls_to(r"Default>?::default$")) or any(s["rv"]["k"] == "agg" for i, j, s in an.stmts() if s["k"] == "assign"), "R11.3", "fresh-matcher", an.where(), "every parse starts from fresh ArgMatches", "ArgMatcher::new reuses state")
    dp = fx.body(CMD + "_do_parse")
    res.check(len(dp.calls_to(r"ArgMatcher::new$")) == 1 and len(dp.calls_to(r"Parser::new$")) == 1, "R11.3", "fresh-per-parse", dp.where(), "_do_parse creates a new matcher and parser", "_do_parse reuses a matcher/parser")

    # ---- R11.4 name twins
    table = {"usage_name": {"need": {"bin_name"}, "forbid": {"usage_name", "display_name"}},
             "bin_name": {"need": {"bin_name"}, "forbid": {"usage_name", "display_name"}},
             "display_name": {"need": {"display_name"}, "forbid": {"usage_name", "bin_name"}}}
    for fn_b in (bsc, bn):
        for fld, spec in table.items():
            ws = writes_field(fn_b, fld)
            res.floor("R11.4", "write of %s in %s" % (fld, fn_b.q.rsplit("::", 1)[1]), len(ws), 1)
            for i, s in ws:
                src = s["rv"]["ops"][0] if s["rv"]["k"] == "agg" and s["rv"]["ops"] else s["rv"].get("op")
                fs = slice_fields(fx, fn_b, src) if src is not None else set()
                ok = spec["need"] <= fs and not (spec["forbid"] & fs)
                res.check(ok, "R11.4", "twin|%s|%s" % (fn_b.q.rsplit("::", 1)[1], fld), "%s in %s" % (sp_str(s["sp"]), fn_b.q),
                          "%s derived from the parent's %s (reads %s)" % (fld, sorted(spec["need"]), sorted(fs & {"bin_name", "usage_name", "display_name", "name"})),
                          "%s computes a subcommand's %s from the parent's %s instead of %s: the per-parse twin and the build() twin disagree" % (
                              fn_b.q.rsplit("::", 1)[1], fld, sorted(fs & {"bin_name", "usage_name", "display_name"}), sorted(spec["need"])))
    # _build_subcommand assigns usage_name and bin_name on every returning path, except the one where the
    # subcommand does not exist (None arm of the lookup)
    for fld in ("usage_name", "bin_name"):
        ws = writes_field(bsc, fld)
        wb = tuple(i for i, s in ws)
        # the only way around the writes is the "no such subcommand" edge of the lookup
        none_edges = []
        for (sbb, pl, ty, targets, otherwise) in bsc.discr_switches():
            if re.search(r"(find|branch)\(.*subcommands", expr(bsc, pl)):
                tgt = targets.get(0) if "Option" in ty else targets.get(1, otherwise) if "ControlFlow" in ty else None
                if tgt is not None:
                    none_edges.append((sbb, tgt))
        bad = []
        seen = {0}
        work = [0]
        while work:
            x = work.pop()
            for y in bsc.succ(x):
                if y in wb or (x, y) in none_edges or y in seen:
                    continue
                seen.add(y)
                work.append(y)
        bad = [r for r in bsc.return_blocks() if r in seen]
        res.check(bool(ws) and not bad, "R11.4", "names-every-parse|" + fld, bsc.where(), "%s recomputed on every _build_subcommand of an existing subcommand" % fld,
                  "_build_subcommand can return the subcommand without (re)computing %s (%s): its names then depend on which calls happened before" % (fld, bad[:1]))
    res.check(bool(bsc.calls_to(r"Command::_build_self$")), "R11.4", "subcommand-built", bsc.where(), "the subcommand is built before use", "_build_subcommand no longer builds the subcommand")


    # ---- R11.5 faithful clones
    MANUAL_OK = {"clap_builder::builder::value_parser::ValueParser": "enum of parsers; Other(..) is re-boxed through AnyValueParser::clone_any"}
    cb_ = fx.crate("clap_builder")
    ncl = 0
    for im in cb_.impls:
        if not str(im.get("trait", "")).endswith("::Clone"):
            continue
        ncl += 1
        ty = im["self_ty"]
        if len(im["span"]) >= 6 and im["span"][5] == "Clone":
            continue       # #[derive(Clone)]
        base = ty.split("<")[0]
        if base in MANUAL_OK:
            res.audited("R11.5", "manual-clone|" + base, sp_str(im["span"]), MANUAL_OK[base])
            continue
        bodies_ = [b for b in cb_.bodies if b.q == "<%s as std::clone::Clone>::clone" % ty]
        okf, why = False, "no clone body found"
        for b in bodies_:
            aggs = [s_ for i, j, s_ in b.stmts() if s_["k"] == "assign" and s_["place"] == 0 and s_["rv"]["k"] == "agg" and (s_["rv"].get("adt") or "").split("<")[0] == base]
            if not aggs:
                why = "result is not built field by field"
                continue
            okf = True
            for s_ in aggs:
                for fld, op in zip(s_["rv"].get("fields", []), s_["rv"].get("ops", [])):
                    e = expr(b, op)
                    if e not in ("clone(self.%s)" % fld, "self.%s" % fld):
                        okf, why = False, "field `%s` of the clone is %s, not a clone of self.%s" % (fld, e[:60], fld)
        res.check(okf, "R11.5", "manual-clone|" + base, sp_str(im["span"]), "hand-written Clone is field-wise", "hand-written Clone for %s is not a faithful copy: %s" % (base, why))
    res.floor("R11.5", "Clone impls in clap_builder", ncl, 60)
    res.ok("R11.5", "derived-clones", "clap_builder", "%d Clone impls inspected" % ncl)


    # ---- R11.6 the one-shot build is parameterised: do all callers pass the same value?
    used_in_region = []
    for c in bs.calls():
        if has_bool(bs, c.bb, "F", built_guard):
            for k, a in enumerate(c.args):
                e = expr(bs, a)
                if re.fullmatch(r"[a-z_]+", e) and e in [n for (t, n) in bs.locals[1:bs.argc + 1]] and e != "self":
                    used_in_region.append((e, c))
    for pname in sorted(set(p for p, _ in used_in_region)):
        pidx = [n for (t, n) in bs.locals].index(pname)
        vals = {}
        work = [(bs, pidx)]
        seen = set()
        while work:
            tb, ti = work.pop()
            if (tb.q, ti) in seen:
                continue
            seen.add((tb.q, ti))
            for b in fx.bodies(r"^clap_"):
                for c in b.calls():
                    if c.callee_q != tb.q or ti - 1 >= len(c.args):
                        continue
                    a = c.args[ti - 1]
                    v = op_int(a)
                    if v is not None:
                        vals.setdefault(v, []).append(b.q.rsplit("::", 1)[1])
                    else:
                        nm = expr(b, a)
                        names = [n for (t, n) in b.locals]
                        if nm in names and 1 <= names.index(nm) <= b.argc:
                            work.append((b, names.index(nm)))
                        else:
                            vals.setdefault("?" + nm, []).append(b.q.rsplit("::", 1)[1])
        where_ = [c for p, c in used_in_region if p == pname][0]
        res.check(len(vals) <= 1, "R11.6", "build-parameter-differs|" + pname, where_.where(), "every caller of the one-shot build passes the same `%s`" % pname,
                  "the Built-guarded region of _build_self depends on `%s`, and callers pass different values (%s): what the first caller builds (e.g. the shape of the generated `help` subcommand) is kept for everybody, so a definition that was parsed before renders differently from a fresh one" % (
                      pname, "; ".join("%s from %s" % (k, sorted(set(v))[:4]) for k, v in sorted(vals.items(), key=lambda kv: str(kv[0])))))


    # ---- R11.7 writer census of the name fields
    OKW = {"bin_name": {"_build_bin_names_internal", "_build_subcommand", "bin_name", "set_bin_name", "try_get_matches_from_mut"},
           "display_name": {"_build_bin_names_internal", "_build_subcommand", "display_name"},
           "usage_name": {"_build_bin_names_internal", "_build_subcommand"}}
    nw = 0
    for b in fx.bodies(r"^clap_builder::"):
        for f, okset in OKW.items():
            for i, s_ in writes_field(b, f):
                nw += 1
                fn_ = b.q.split("::{")[0].rsplit("::", 1)[1]
                okw = fn_ in okset and "::command::Command::" in b.q
                if not okw and "::command::Command::" in b.q:
                    # a private helper that only the reviewed writers call is one of them
                    callers = set(x.q.split("::{")[0].rsplit("::", 1)[1] for x in fx.bodies(r"^clap_builder::") for c_ in x.calls() if c_.callee_q == b.q)
                    okw = bool(callers) and callers <= okset and not b.d.get("vis") == "Public"
                res.check(okw, "R11.7", "name-writer|%s|%s" % (f, fn_), "%s in %s" % (sp_str(s_["sp"]), b.q), "%s written by %s" % (f, fn_),
                          "Command::%s is also written by %s: names fixed outside the reviewed builders change what later parses and renderings show (e.g. argv[0] is ignored once bin_name is set)" % (f, b.q))
    res.floor("R11.7", "writes of bin_name/display_name/usage_name", nw, 8)
    # ---- R11.8 flatten_help renderers always work on their own freshly built clone
    nbq = 0
    for b in fx.bodies(r"^clap_builder::output::"):
        for c in b.calls_to(r"Command::build$"):
            nbq += 1
            bg = [g for g in guard_strs(b, c.bb) if re.match(r"^[TF]:", g) and not re.match(r"^T:(has_visible_subcommands|is_flatten_help_set)\(self\.cmd\)$", g)]
            res.check(not bg, "R11.8", "flatten-clone-build-unconditional|" + b.q.rsplit("::", 1)[1], c.where(), "clone().build() whenever flatten_help applies",
                      "%s builds its private clone only under %s: whether names/help tree are complete then depends on what earlier parses did to the definition" % (b.q, bg))
    res.floor("R11.8", "Command::build calls in the renderers", nbq, 2)
