"""C15 — derived parsers are exactly their command plus field extraction, and round-trip."""
import re
from rulekit import *

EXPLANATION = (
    "Translation validation of clap_derive's output by static shape rules (E3): the corpus crate /verif/corpus (derive inputs "
    "spanning the type-shape x attribute matrix: bool, counter, required T, Option<T>, Option<Option<T>>, Vec<T>, Option<Vec<T>>, "
    "positionals, default_value_t, value_enum, flatten, optional and required subcommand enum, tuple/struct/unit/external "
    "variants, value enum with alias and skipped variant) is compiled — never run — against /repo's current clap and clap_derive "
    "under the fact extractor; the expanded, type-checked impls are checked field by field against a table written from the "
    "property statement. R15.1a augment_args: per field the Arg builder chain (Arg::new(id) ... Command::arg) has the action, "
    "num_args and requiredness its type shape demands; flatten delegates to <T as Args>::augment_args, subcommand to "
    "<T as Subcommand>::augment_subcommands (+ subcommand_required for a non-optional field); R15.1b from_arg_matches_mut: per "
    "field the extraction idiom of its shape (remove_one + missing-required error / remove_one / contains_id-guarded Some / "
    "remove_many .. unwrap_or_else(Vec::new) / delegation); R15.1c update_from_arg_matches_mut: every field assignment is "
    "dominated by contains_id(\"<that field's id>\"); R15.1d augment_args_for_update differs from augment_args only by "
    "required(false); R15.1e ValueEnum: value_variants lists every non-skipped variant, to_possible_value has an arm per "
    "variant with its name/aliases and None for skipped ones. R15.2 translator exhaustiveness: the matches over Ty in "
    "clap_derive name their variants (wildcard arms are listed and audited). R15.3 trait glue table (clap_builder/src/derive.rs): "
    "Parser::{parse,try_parse,parse_from,try_parse_from} = command() + *get_matches* + from_arg_matches_mut + format_error; "
    "{update_from,try_update_from} = command_for_update() + update_from_arg_matches_mut; no cross-over. R15.4 "
    "ValueEnum::from_str iterates value_variants() and tests to_possible_value().matches(input, ignore_case). "
    "NOT decided: success-equivalence with the generated command on every argv, the print/parse round trip, update histories."
    ' R15.1 (added): update_from_arg_matches delegates to a flattened field unconditionally.'
    ' R15.2 (added): gen_augment translates flat (Vec, Option<Vec>) and nested (Vec<Vec>, Option<Vec<Vec>>) vector shapes in different arms.'
)
TRUSTED = ["rustc (macro expansion + type check of the corpus)", "clapfacts", "the shape table below (written from the property statement)"]
ASSUMPTIONS = ["the corpus shapes are representative of user derive inputs with the same type shapes", "Vec<Vec<T>> needs clap's unstable-v5 feature and is not in the corpus"]
LEVEL_TEXT = ("Static translation validation: derive expansions of a fixed corpus are checked structurally (no execution); plus structural rules on clap_derive and the trait glue. ")

C = "verif_corpus::"
D = "clap_builder::derive::"

# field -> expected shape (from the property statement)
SHAPES = {
    "Opts": {
        "flag": dict(kind="bool"), "req": dict(kind="required"), "opt": dict(kind="option"), "optopt": dict(kind="optopt"), "vec": dict(kind="vec"),
        "optvec": dict(kind="optvec"), "count": dict(kind="count"), "num": dict(kind="default"), "mode": dict(kind="option"),
        "flat": dict(kind="flatten", ty="Flat"), "cmd": dict(kind="subcommand-opt", ty="Cmd"),
    },
    "Cond": {"staging": dict(kind="bool"), "host": dict(kind="required")},
    "Pos": {"first": dict(kind="required", positional=True), "second": dict(kind="option", positional=True), "rest": dict(kind="vec", positional=True)},
    "ReqSub": {"verbose": dict(kind="bool"), "cmd": dict(kind="subcommand-req", ty="Cmd")},
    "OptSub": {"verbose": dict(kind="bool"), "cmd": dict(kind="subcommand-opt", ty="Plain")},
    "Flat": {"inner": dict(kind="option"), "inner_flag": dict(kind="bool")},
    "RemoveArgs": {"force": dict(kind="bool"), "level": dict(kind="option")},
}
ACTION = {"bool": "SetTrue", "required": "Set", "option": "Set", "optopt": "Set", "vec": "Append", "optvec": "Append", "count": "Count", "default": "Set"}


def arg_chains(b):
    """{id: [(method, call)]} for every Arg::new(id) ... chain in a body."""
    out = {}
    for c in b.calls_to(r"clap_builder::builder::arg::Arg::new$"):
        aid = const_of(b, c.args[0])
        if aid is None:
            m = re.match(r"^'(.*)'$", expr(b, c.args[0]))
            aid = m.group(1) if m else None
        if aid is None:
            continue
        chain = []
        cur = c
        for _ in range(40):
            nxt = [u for u in b.calls() if u is not cur and u.args and isinstance(cur.dest, int) and expr(b, u.args[0]) == expr(b, cur.dest) and (u.callee_q or "").startswith("clap_builder::builder::arg::Arg::")]
            if not nxt:
                break
            cur = nxt[0]
            chain.append((cur.callee_q.rsplit("::", 1)[1], cur))
        out[aid] = chain
    return out


def required_value(b, call):
    """Evaluate the argument of .required(..): True / False / 'takes_values(<Action>)' / '?'."""
    a = call.args[1]
    if op_int(a) is not None:
        return bool(op_int(a))
    l = op_local(a)
    tv = None
    first = None
    consts = set()
    for (bb, idx, lhs, rhs) in b.def_sites(l):
        if isinstance(rhs, Call):
            if not rhs.is_(r"ArgAction::takes_values$"):
                return "?"
            tv = sorted(agg_variants(b, rhs.args[0]))
            # `<const> && action.takes_values()`: the call sits on the true edge of a switch on the constant
            for p in b.pred(bb):
                t = b.blocks[p]["term"]
                if t["k"] == "switch" and t["ty"] == "bool":
                    sl = op_local(t["op"])
                    for (_, _, _, r2) in b.def_sites(sl):
                        if not isinstance(r2, Call) and r2["k"] == "use" and op_int(r2["op"]) is not None:
                            first = op_int(r2["op"])
        elif rhs["k"] == "use" and op_int(rhs["op"]) is not None:
            consts.add(op_int(rhs["op"]))
        else:
            return "?"
    if tv is not None:
        if first == 0:
            return False
        if first == 1:
            return "takes_values(%s)" % ",".join(tv)
        return "?"
    if consts == {0}:
        return False
    if consts == {1}:
        return True
    return "?"


def run(ctx):
    fx, res = ctx.fx, ctx.res
    cx = ctx.corpus()
    cr = cx.crate("verif_corpus")
    res.floor("R15.1", "derive-generated bodies in the corpus", len(cr.bodies), 80)
    nfields = 0
    for st, fields in SHAPES.items():
        aug = cx.body("<%s%s as %sArgs>::augment_args" % (C, st, D))
        augu = cx.body("<%s%s as %sArgs>::augment_args_for_update" % (C, st, D))
        fam = cx.body("<%s%s as %sFromArgMatches>::from_arg_matches_mut" % (C, st, D))
        upd = cx.body("<%s%s as %sFromArgMatches>::update_from_arg_matches_mut" % (C, st, D))
        chains = arg_chains(aug)
        chains_u = arg_chains(augu)
        # constructor aggregate
        ctor = None
        for i, j, s in fam.stmts():
            if s["k"] == "assign" and s["rv"]["k"] == "agg" and s["rv"].get("adt") == C + st:
                ctor = dict(zip(s["rv"]["fields"], s["rv"]["ops"]))
        if ctor is None:
            raise AnchorMissing("constructor aggregate of %s not found" % st)
        res.check(set(ctor) == set(fields), "R15.1", "ctor-fields|" + st, fam.where(), "constructor sets %s" % sorted(ctor), "constructor of %s sets fields %s, corpus declares %s" % (st, sorted(ctor), sorted(fields)))
        for f, spec in fields.items():
            nfields += 1
            kind = spec["kind"]
            key = "%s.%s" % (st, f)
            # ---------- augment_args
            if kind == "flatten":
                cs = aug.calls_to(r"<%s%s as %sArgs>::augment_args$" % (re.escape(C), spec["ty"], re.escape(D)))
                csu = augu.calls_to(r"<%s%s as %sArgs>::augment_args_for_update$" % (re.escape(C), spec["ty"], re.escape(D)))
                res.check(len(cs) == 1 and len(csu) == 1, "R15.1", "augment|%s|flatten" % key, aug.where(), "flatten delegates to <%s as Args>::augment_args(_for_update)" % spec["ty"],
                          "flattened field %s does not delegate to the inner Args (%d / %d calls)" % (key, len(cs), len(csu)))
            elif kind.startswith("subcommand"):
                cs = aug.calls_to(r"<%s%s as %sSubcommand>::augment_subcommands$" % (re.escape(C), spec["ty"], re.escape(D)))
                sr = aug.calls_to(r"Command::subcommand_required$")
                okd = len(cs) == 1
                if kind == "subcommand-req":
                    okr = len(sr) == 1 and op_int(sr[0].args[1]) == 1 and bool(aug.calls_to(r"Command::arg_required_else_help$"))
                else:
                    okr = not [c for c in sr if op_int(c.args[1]) == 1]
                res.check(okd and okr, "R15.1", "augment|%s|%s" % (key, kind), aug.where(), "subcommand enum attached; required=%s" % (kind == "subcommand-req"),
                          "subcommand field %s: delegation %s, subcommand_required %s (expected required=%s)" % (key, okd, [op_int(c.args[1]) for c in sr], kind == "subcommand-req"))
            else:
                ch = chains.get(f)
                if ch is None:
                    res.violation("R15.1", "augment|%s|missing" % key, aug.where(), "no Arg::new(\"%s\") in augment_args of %s" % (f, st))
                    continue
                meth = {m: c for m, c in ch}
                act = sorted(agg_variants(aug, meth["action"].args[1])) if "action" in meth else []
                want_act = ACTION[kind]
                res.check(act == [want_act], "R15.1", "augment|%s|action" % key, ch[0][1].where(), "action %s" % act, "field %s (%s) gets action %s, its type shape requires %s" % (key, kind, act, want_act))
                req = required_value(aug, meth["required"]) if "required" in meth else None
                if kind == "required":
                    okq = req in (True, "takes_values(Set)")
                elif kind in ("bool", "count"):
                    okq = req in (None, False, "takes_values(SetTrue)", "takes_values(Count)")
                elif kind == "default":
                    okq = req in (None, False)
                else:
                    okq = req in (None, False)
                res.check(okq, "R15.1", "augment|%s|required" % key, ch[0][1].where(), "required(%s)" % (req,), "field %s (%s) is declared required(%s)" % (key, kind, req))
                na = expr(aug, meth["num_args"].args[1]) if "num_args" in meth else None
                if kind == "optopt":
                    okn = na is not None and re.fullmatch(r"new\(0,1\)", na) is not None
                elif kind == "vec" and spec.get("positional"):
                    okn = na is not None and re.fullmatch(r"RangeFrom::RangeFrom\(1\)", na) is not None
                else:
                    okn = na is None
                res.check(okn, "R15.1", "augment|%s|num_args" % key, ch[0][1].where(), "num_args %s" % na, "field %s (%s) gets num_args(%s)" % (key, kind, na))
                haslong = "long" in meth or "short" in meth
                res.check(haslong != bool(spec.get("positional")), "R15.1", "augment|%s|flag-or-positional" % key, ch[0][1].where(), "positional=%s" % (not haslong), "field %s positional-ness changed" % key)
                # R15.1d for_update: same chain, required only false
                chu = chains_u.get(f, [])
                mu = {m: c for m, c in chu}
                requ = required_value(augu, mu["required"]) if "required" in mu else None
                same = [m for m, _ in ch if m != "required"] == [m for m, _ in chu if m != "required"]
                actu = sorted(agg_variants(augu, mu["action"].args[1])) if "action" in mu else []
                res.check(same and requ in (None, False) and actu == act, "R15.1", "for_update|%s" % key, augu.where(), "for_update: same builder chain, required(%s)" % (requ,),
                          "augment_args_for_update differs from augment_args for %s beyond required(false): required=%s chain-equal=%s action=%s" % (key, requ, same, actu))
            # ---------- from_arg_matches_mut
            e = expr(fam, ctor[f])
            if kind in ("bool", "required", "count", "default"):
                okx = re.fullmatch(r"branch\(ok_or_else\(remove_one\(__clap_arg_matches,'%s'\),closure\(.*\)\)\)#Continue\.0" % f, e) is not None
                if okx:
                    cl = [cb for c in fam.calls_to(r"Option::ok_or_else$") if re.search(r"'%s'" % f, expr(fam, c.args[0])) for cb in closure_bodies(cx, c)]
                    okx = any("MissingRequiredArgument" in " ".join(sorted(agg_variants(cb, cc.args[0]))) for cb in cl for cc in cb.calls_to(r"error::Error::raw$"))
                why = "remove_one + MissingRequiredArgument error"
            elif kind == "option":
                okx = re.fullmatch(r"remove_one\(__clap_arg_matches,'%s'\)" % f, e) is not None
                why = "remove_one"
            elif kind in ("optopt", "optvec"):
                # contains_id-guarded Some(..) else None
                l = op_local(ctor[f])
                somes = [(bb, rhs) for (bb, idx, lhs, rhs) in fam.def_sites(l) if not isinstance(rhs, Call) and rhs["k"] == "agg" and rhs.get("variant") == "Some"]
                nones = [(bb, rhs) for (bb, idx, lhs, rhs) in fam.def_sites(l) if not isinstance(rhs, Call) and rhs["k"] == "agg" and rhs.get("variant") == "None"]
                okx = len(somes) == 1 and len(nones) == 1 and has_bool(fam, somes[0][0], "T", r"^contains_id\(__clap_arg_matches,'%s'\)$" % f) and has_bool(fam, nones[0][0], "F", r"^contains_id\(__clap_arg_matches,'%s'\)$" % f)
                if okx:
                    inner = expr(fam, somes[0][1]["ops"][0])
                    okx = (kind == "optopt" and re.fullmatch(r"remove_one\(__clap_arg_matches,'%s'\)" % f, inner) is not None) or \
                          (kind == "optvec" and re.fullmatch(r"unwrap_or_else\(map\(remove_many\(__clap_arg_matches,'%s'\),closure\(\)\),fn:Vec::new\)" % f, inner) is not None)
                why = "contains_id-guarded Some(..)"
            elif kind == "vec":
                okx = re.fullmatch(r"unwrap_or_else\(map\(remove_many\(__clap_arg_matches,'%s'\),closure\(\)\),fn:Vec::new\)" % f, e) is not None
                why = "remove_many .. unwrap_or_else(Vec::new)"
            elif kind == "flatten":
                okx = re.fullmatch(r"branch\(from_arg_matches_mut\(__clap_arg_matches\)\)#Continue\.0", e) is not None and bool(fam.calls_to(r"<%s%s as %sFromArgMatches>::from_arg_matches_mut$" % (re.escape(C), spec["ty"], re.escape(D))))
                why = "delegation to <T as FromArgMatches>::from_arg_matches_mut"
            elif kind == "subcommand-req":
                okx = re.search(r"from_arg_matches_mut\(__clap_arg_matches\)", e) is not None and bool(fam.calls_to(r"<%s%s as %sFromArgMatches>::from_arg_matches_mut$" % (re.escape(C), spec["ty"], re.escape(D))))
                why = "delegation to the subcommand enum"
            elif kind == "subcommand-opt":
                l = op_local(ctor[f])
                somes = [(bb, rhs) for (bb, idx, lhs, rhs) in fam.def_sites(l) if not isinstance(rhs, Call) and rhs["k"] == "agg" and rhs.get("variant") == "Some"]
                nones = [(bb, rhs) for (bb, idx, lhs, rhs) in fam.def_sites(l) if not isinstance(rhs, Call) and rhs["k"] == "agg" and rhs.get("variant") == "None"]
                # Some(..) only when the matches hold a subcommand *of this enum*: subcommand_name().map(<T>::has_subcommand)
                gs = [g for p, g in bool_facts(fam, somes[0][0]) if p == "T"] if somes else []
                okx = len(somes) == 1 and len(nones) == 1 and any(re.search(r"subcommand_name\(", g) and re.search(r"has_subcommand", g) for g in gs)
                why = "Some(subcommand) only if subcommand_name().map(<%s>::has_subcommand) holds" % spec["ty"]
            else:
                okx, why = False, "?"
            res.check(okx, "R15.1", "extract|%s|%s" % (key, kind), fam.where(), "%s: %s" % (why, e[:70]), "field %s (%s) is extracted as `%s`, expected %s" % (key, kind, e[:140], why))
            # ---------- update_from_arg_matches_mut: assignment dominated by contains_id(id)
            if kind in ("flatten",) or kind.startswith("subcommand"):
                if kind == "flatten":
                    cs = upd.calls_to(r"<%s%s as %sFromArgMatches>::update_from_arg_matches_mut$" % (re.escape(C), spec["ty"], re.escape(D)))
                    res.check(len(cs) == 1 and expr(upd, cs[0].args[0]) == "self.%s" % f, "R15.1", "update|%s|flatten" % key, upd.where(), "update delegates to the flattened struct in place", "update of flattened %s does not delegate in place" % key)
                    for c_ in cs:
                        bg = [g for g in guard_strs(upd, c_.bb) if re.match(r"^[TF]:", g)]
                        res.check(not bg, "R15.1", "update|%s|flatten-unconditional" % key, c_.where(), "the flattened struct is updated on every path",
                                  "update_from_arg_matches of %s updates the flattened field `%s` only under %s: when that test is false (e.g. the inner struct's group is empty because it flattens another struct, or only its subcommand was given) the new values are silently not applied" % (st, f, bg))
                continue
            writes = []
            for i, j, s in upd.stmts():
                if s["k"] == "assign" and not isinstance(s["place"], int) and s["place"][-1] == "*" and upd.blocks[i]["cleanup"] is False and i in upd.reachable(0):
                    if expr(upd, s["place"][0]) == "self.%s" % f:
                        writes.append(i)
            res.check(bool(writes) and all(has_bool(upd, i, "T", r"^contains_id\(__clap_arg_matches,'%s'\)$" % f) for i in writes), "R15.1", "update|%s" % key, upd.where(),
                      "self.%s assigned only under contains_id(\"%s\")" % (f, f), "update_from_arg_matches_mut writes self.%s without the contains_id(\"%s\") guard (%d writes): fields not named on the command line would be overwritten" % (f, f, len(writes)))
    res.floor("R15.1", "corpus fields checked", nfields, 20)

    # subcommand enum: has_subcommand names, variant dispatch
    hs = cx.body("<%sCmd as %sSubcommand>::has_subcommand" % (C, D))
    rets = [op_int(st["rv"]["op"]) for i, j, st in hs.stmts() if st["k"] == "assign" and st["place"] == 0 and st["rv"]["k"] == "use"]
    res.check(rets == [1] and not hs.calls(), "R15.1", "subcommand-names", hs.where(), "has_subcommand = true (the enum has an external_subcommand variant)",
              "has_subcommand of an enum with an external_subcommand variant is not constantly true: %s" % rets)
    hp = cx.body("<%sPlain as %sSubcommand>::has_subcommand" % (C, D))
    pn = sorted(set(x for x in (const_of(c.body, a) for c in hp.calls() for a in c.args) if x))
    if not pn:
        pn = sorted(set(re.findall(r"'([a-z]+)'", " ".join(expr(hp, a) for c in hp.calls() for a in c.args))))
    res.check(pn == ["one", "two"], "R15.1", "subcommand-names|Plain", hp.where(), "has_subcommand(Plain) knows %s" % pn, "has_subcommand of Plain knows %s, expected one/two" % pn)
    # nested-subcommand variants are known by NAME; only flattened variants delegate to the inner enum
    ht = cx.body("<%sTop as %sSubcommand>::has_subcommand" % (C, D))
    names_t = sorted(set(x for x in (const_of(c.body, a) for c in ht.calls_to(r"PartialEq.*::eq$") for a in c.args) if x))
    deleg = sorted(c.callee_q for c in ht.calls_to(r"Subcommand>?::has_subcommand$"))
    res.check(names_t == ["remote", "status"] and deleg == ["<%sPlain as %sSubcommand>::has_subcommand" % (C, D)], "R15.1", "subcommand-names|Top", ht.where(),
              "has_subcommand(Top): names %s, delegates to %s" % (names_t, [d.split(" as ")[0].rsplit("::", 1)[-1] for d in deleg]),
              "has_subcommand(Top) knows the names %s and delegates to %s; expected names remote/status (the #[command(subcommand)] variant is addressed by its own name) and delegation to Plain only (the flattened variant): an Option<Top> field would stay None although `remote` was given" % (names_t, deleg))
    fam = cx.body("<%sTop as %sFromArgMatches>::from_arg_matches_mut" % (C, D))
    rn = sorted(set(x for x in (const_of(c.body, a) for t in tree(fam) for c in t.calls_to(r"PartialEq.*::eq$") for a in c.args) if x))
    res.check("remote" in rn and bool(tree_calls(fam, r"<%sRemoteCmd as %sFromArgMatches>::from_arg_matches_mut$" % (re.escape(C), re.escape(D)))), "R15.1", "subcommand-dispatch|Top.Remote", fam.where(),
              "`remote` is dispatched by name to RemoteCmd::from_arg_matches_mut", "from_arg_matches_mut(Top) no longer dispatches `remote` to the nested enum (names compared: %s)" % rn)
    asb = cx.body("<%sCmd as %sSubcommand>::augment_subcommands" % (C, D))
    subs = sorted(set(x for x in (const_of(asb, c.args[0]) for c in asb.calls_to(r"Command::new$")) if x))
    res.check(subs == ["add", "remove", "unit"] and bool(asb.calls_to(r"Command::external_subcommand_value_parser$")), "R15.1", "subcommand-augment", asb.where(), "subcommands %s + external" % subs, "augment_subcommands defines %s" % subs)
    # ---- R15.1e ValueEnum
    vv = cx.body("<%sMode as %sValueEnum>::value_variants" % (C, D))
    listed = []
    for pb in vv.j.get("promoted", []):
        for bl in pb:
            for s in bl["stmts"]:
                if s["k"] == "assign" and s["rv"]["k"] == "agg" and s["rv"].get("adt") == C + "Mode":
                    listed.append(s["rv"]["variant"])
    res.check(listed == ["Fast", "Slow"], "R15.1", "value_enum|variants", vv.where(), "value_variants = %s (skipped variant omitted)" % listed, "value_variants lists %s, expected [Fast, Slow]" % listed)
    tp = cx.body("<%sMode as %sValueEnum>::to_possible_value" % (C, D))
    av = arm_values(tp)
    ok = av.get(0) == "Some(new('fast'))" and av.get(1) == "Some(alias(new('slow'),'s'))" and (av.get("otherwise") == "None()" or av.get(2) == "None()")
    res.check(ok, "R15.1", "value_enum|to_possible_value", tp.where(), "to_possible_value: %s" % av, "to_possible_value maps variants to %s" % av)

    # ---- R15.2 translator exhaustiveness (clap_derive)
    cd = fx.crate("clap_derive")
    nm = 0
    for m in cd.matches:
        if "utils::ty::Ty" not in m["scrut_ty"]:
            continue
        owner = cd.q[m["owner"]]
        nm += 1
        pats = [a["pat"] for a in m["arms"]]
        wild = [p for p in pats if p.strip() == "_" or p.strip().startswith("$")]
        named = sorted(set(alt.strip().rsplit("::", 1)[-1] for p in pats for alt in p.split("|") if "::" in alt))
        key = "ty-match|%s|%s" % (owner.rsplit("::", 2)[-2] + "::" + owner.rsplit("::", 1)[-1], ",".join(named))
        # flat and nested vector shapes differ in the value count they imply (a positional Vec<T> takes 1.. values per occurrence, a
        # Vec<Vec<T>> one inner vector per occurrence): the translator of gen_augment must not handle them in one arm
        if owner.endswith("::gen_augment") and not wild:
            mixed = [p for p in pats if re.search(r"::(Vec|OptionVec)\b(?!Vec)", p) and re.search(r"::(VecVec|OptionVecVec)\b", p)]
            res.check(not mixed, "R15.2", "flat-and-nested-vectors-apart|gen_augment", sp_str(m["span"]), "Vec/Option<Vec> and Vec<Vec>/Option<Vec<Vec>> are translated by different arms",
                      "gen_augment translates flat and nested vector fields in one arm (%s): a positional Vec<Vec<T>> gets the flat vector's `num_args(1..)` and all values land in one occurrence" % (mixed[0][:120] if mixed else ""))
        if wild:
            res.audited("R15.2", key + "|wildcard", sp_str(m["span"]), "match over Ty with a wildcard arm (names %s): listed, the named arms are checked by R15.1 on the corpus" % named)
        else:
            res.ok("R15.2", key, sp_str(m["span"]), "match over Ty names %s" % named)
    res.floor("R15.2", "matches over Ty in clap_derive", nm, 4)

    # ---- R15.3 trait glue
    glue = {
        "parse": (r"CommandFactory::command$", r"Command::get_matches$", r"FromArgMatches::from_arg_matches_mut$"),
        "try_parse": (r"CommandFactory::command$", r"Command::try_get_matches$", r"FromArgMatches::from_arg_matches_mut$"),
        "parse_from": (r"CommandFactory::command$", r"Command::get_matches_from$", r"FromArgMatches::from_arg_matches_mut$"),
        "try_parse_from": (r"CommandFactory::command$", r"Command::try_get_matches_from$", r"FromArgMatches::from_arg_matches_mut$"),
        "update_from": (r"CommandFactory::command_for_update$", r"Command::get_matches_from$", r"FromArgMatches::update_from_arg_matches_mut$"),
        "try_update_from": (r"CommandFactory::command_for_update$", r"Command::try_get_matches_from$", r"FromArgMatches::update_from_arg_matches_mut$"),
    }
    for fn_, need in glue.items():
        b = fx.body("clap_builder::derive::Parser::" + fn_)
        missing = [n for n in need if not b.calls_to(n)]
        cross = b.calls_to(r"CommandFactory::command_for_update$" if "update" not in fn_ else r"CommandFactory::command$") + \
            b.calls_to(r"FromArgMatches::update_from_arg_matches(_mut)?$" if "update" not in fn_ else r"FromArgMatches::from_arg_matches(_mut)?$")
        fe = any("format_error" in q for c in b.calls() for q in c.fnitems) or bool(b.calls_to(r"derive::format_error$"))
        res.check(not missing and not cross and fe, "R15.3", "glue|" + fn_, b.where(), "%s = %s" % (fn_, [n.rstrip("$").rsplit("::", 1)[1] for n in need]),
                  "Parser::%s: missing %s, cross-over %s, format_error %s" % (fn_, missing, [c.callee_q for c in cross], fe))
        # the matches passed on are the ones just produced from the command
        fm = b.calls_to(need[2])
        if fm:
            res.check(re.search(need[1].rstrip("$").rsplit("::", 1)[1] + r"\(", expr(b, fm[0].args[-1])) is not None, "R15.3", "glue-matches|" + fn_, fm[0].where(), "extracts from the matches of that very parse", "Parser::%s extracts from %s" % (fn_, expr(b, fm[0].args[-1])[:80]))

    # ---- R15.4 ValueEnum::from_str
    fs = fx.body("clap_builder::derive::ValueEnum::from_str")
    okv = bool(fs.calls_to(r"ValueEnum::value_variants$")) and bool(fs.calls_to(r"Iterator>?::find$"))
    cl = [cb for c in fs.calls_to(r"Iterator>?::find$") for cb in closure_bodies(fx, c)]
    okm = any(cb.calls_to(r"ValueEnum::to_possible_value$") and cb.calls_to(r"PossibleValue::matches$") for cb in cl)
    okargs = False
    for cb in cl:
        for c in cb.calls_to(r"PossibleValue::matches$"):
            a1, a2 = expr(cb, c.args[1]), expr(cb, c.args[2])
            okargs = bool(re.search(r"arg1\.0|input", a1)) and bool(re.search(r"arg1\.1|ignore_case", a2))
    res.check(okv and okm and okargs, "R15.4", "from_str", fs.where(), "from_str = value_variants().find(to_possible_value().matches(input, ignore_case))", "ValueEnum::from_str no longer matches every variant's possible value against (input, ignore_case)")


    # ---- R15.3b Box<T> forwards every derive-trait method to the method of the same name on T
    nb = 0
    for b in fx.bodies(r"^<std::boxed::Box as clap_builder::derive::\w+>::\w+$"):
        tr, me = re.match(r"^<std::boxed::Box as clap_builder::derive::(\w+)>::(\w+)$", b.q).groups()
        fw = [c for c in b.calls() if not sp_macro(c.sp) and (c.callee_q or c.decl_q or "").startswith("clap_builder::derive::")]
        nb += 1
        want = "clap_builder::derive::%s::%s" % (tr, me)
        res.check(len(fw) == 1 and (fw[0].callee_q or fw[0].decl_q) == want, "R15.3", "box-forwards|%s::%s" % (tr, me), b.where(), "Box<T>::%s = T::%s" % (me, me),
                  "<Box<T> as %s>::%s forwards to %s: a boxed value behaves differently from the value itself (e.g. update uses the parse-time command with its required arguments)" % (tr, me, [(c.callee_q or c.decl_q).rsplit("::", 1)[1] for c in fw]))
    res.floor("R15.3", "Box<T> forwarding methods in clap_builder::derive", nb, 15)
