"""C19 — man pages always render, cover every visible item, and keep user text as text."""
import os, re
from rulekit import *
import strflow, panics, vset
from rules.c12 import classify

EXPLANATION = (
    "R19.1 taint to control lines: roff 0.2.1 (read, trusted) escapes Roff::text inlines (leading `.`/`'` after every newline, "
    "backslashes, dashes) but renders Roff::control arguments verbatim, so a newline inside a control argument starts a new "
    "roff line. Every Roff::control call of clap_mangen is enumerated; its name must be a constant and the symbolic "
    "structure of each argument (lib/strflow.py: interprocedural, field-sensitive for Man's fields, models vec!/format!/"
    "closures) may contain author text (clap getters for names, about, help, headings, version, author, env, ...; parameters "
    "of Man's public setters) only in the title (.TH) and heading (.SH) requests and only below a newline neutraliser "
    "(str::lines items or replace('\\n', _)); every other request must have constant arguments. "
    "R19.2 guard dominance: in Man::render every optional section is rendered on the true edge of its predicate "
    "(app_has_version / app_has_arguments / app_has_subcommands / after-help / author present). R19.3 HIDE: every iteration "
    "over arguments / positionals / subcommands / possible values in render.rs and lib.rs is filtered by is_hide_set "
    "(classification as in C12), siblings agree. R19.4 PANIC over all clap_mangen bodies reachable from its public API, and "
    "DET (no nondeterminism source). NOT decided: that every visible item is named."
    ' R19.3c: the option sections are a partition of the visible arguments (no positional narrowing such as take_while/drain in _render_options_section).'
    " R19.A accessor layer (lib/accessors.py): for the is_*_set / get_* accessors this property's rules name — the bool builder sets and unsets one flag on the right edges and the predicate reads that same flag; builder scope (global/local) as in audit/setting_scope.tsv; no two predicates/builders share a flag; setting/unset_setting/global_setting/is_set forward to the right flag word, the flag word is |=bit / &=!bit / &bit!=0 with bit = 1<<discriminant, _propagate_subcommand hands g_settings to the child's settings and g_settings; plain field getters return their field."
)
TRUSTED = ["rustc MIR + expanded AST", "clapfacts", "lib/strflow.py", "roff 0.2.1 source (text escaped, control args verbatim)", "audit/panic.tsv"]
ASSUMPTIONS = ["a carriage return alone does not start a roff control line"]
AUDIT = os.path.join(os.path.dirname(os.path.dirname(os.path.abspath(__file__))), "audit", "panic.tsv")

SRC = (r"^clap_builder::builder::(command::Command::(get_name|get_display_name|get_bin_name|get_version|get_long_version|get_author|get_about|"
       r"get_long_about|get_after_help|get_after_long_help|get_before_help|get_before_long_help|get_subcommand_help_heading|"
       r"get_subcommand_value_name|get_usage_name)|arg::Arg::(get_help|get_long_help|get_help_heading|get_value_names|get_id|get_env|"
       r"get_default_values|get_long|get_short|get_value_delimiter)|possible_value::PossibleValue::(get_name|get_help))$")
ITEM_SRC = (r"clap_builder::builder::command::Command::(get_arguments|get_opts|get_positionals|get_subcommands|get_non_positionals)$|"
            r"clap_builder::builder::arg::Arg::get_possible_values$")


def leaves(t, path=(), out=None, seen=None):
    """(leaf, path of enclosing node kinds) for src/param leaves."""
    if out is None:
        out, seen = [], set()
    k = t[0]
    if k in ("src", "param"):
        out.append((t, path))
        return out
    if id(t) in seen:
        return out
    seen.add(id(t))
    if k == "fmt":
        for i in t[1]:
            if not isinstance(i, str):
                leaves(i, path, out, seen)
    elif k == "repl":
        leaves(t[3], path + (("repl", t[1], t[2]),), out, seen)
    elif k == "mark":
        leaves(t[2], path + (("mark", t[1]),), out, seen)
    elif k in ("cat", "alt"):
        for i in t[1]:
            leaves(i, path, out, seen)
    elif k == "iter":
        leaves(t[1], path, out, seen)
    elif k == "join":
        leaves(t[1], path, out, seen)
        leaves(t[2], path, out, seen)
    elif k == "opaque":
        for i in t[2]:
            leaves(i, path + (("opaque", t[1]),), out, seen)
    return out


def run(ctx):
    fx, res = ctx.fx, ctx.res
    mg = fx.crate("clap_mangen")
    sf = strflow.StrFlow(fx, SRC, inline_crates={"clap_mangen"}, mark_rx=r"^str::lines$", field_adts=r"^clap_mangen::")
    # ---- R19.1
    ctrls = [c for b in mg.bodies for c in b.calls_to(r"^roff::Roff::control$")]
    res.floor("R19.1", "Roff::control call sites", len(ctrls), 21)
    for c in ctrls:
        b = c.body
        name = const_of(b, c.args[1])
        if name is None:
            e = expr(b, c.args[1])
            m = re.match(r"^'(.*)'$", e)
            name = m.group(1) if m else None
        res.check(name is not None, "R19.1", "control-name-const|%s|%s" % (b.q, name), c.where(), "control name is the constant %r" % name,
                  "roff control line with a non-constant request name: %s" % expr(b, c.args[1]))
        t = sf.tree(b, c.args[2])
        bad = []
        for leaf, path in leaves(t):
            if name not in ("TH", "SH"):
                # only the title (.TH) and section-heading (.SH) requests take text arguments by design
                bad.append("%s as argument of .%s" % (leaf[1].rsplit("::", 1)[1] if leaf[0] == "src" else "setter parameter", name))
                continue
            neutral = any(p[0] == "mark" or (p[0] == "repl" and p[1] == "\n" and p[2] is not None and "\n" not in p[2]) for p in path)
            if neutral:
                continue
            if leaf[0] == "src":
                bad.append("%s (%s)" % (leaf[1].rsplit("::", 1)[1], leaf[2].split(" in ")[-1].rsplit("::", 1)[-1]))
            elif leaf[0] == "param":
                bad.append("public setter parameter")
        bad = sorted(set(bad))
        key = "control-arg|%s|.%s" % (b.q, name)
        if bad:
            res.violation("R19.1", key, c.where(), "author text reaches the arguments of roff request .%s unneutralised (a newline in it starts a new control line): %s" % (name, ", ".join(bad)))
        else:
            res.ok("R19.1", key, c.where(), ".%s arguments are constants or newline-free by construction" % name)
    # user text otherwise goes through Roff::text (escaped): census
    texts = [c for b in mg.bodies for c in b.calls_to(r"^roff::Roff::text$")]
    res.floor("R19.1", "Roff::text call sites", len(texts), 15)
    # R19.1b: roff 0.2.1 only protects a leading `.`/`'` of the FIRST inline of a text line and of text after a newline
    # inside one inline; an inline that follows Inline::LineBreak starts an output line unprotected.  So in every
    # Roff::text call the inline right after a LineBreak must be generator-constant text.
    nlb = 0
    for c in texts:
        b = c.body
        seqs = []
        l = op_local(c.args[1])
        # the inlines argument: an array aggregate (possibly via vec!/into) of Inline values
        seen = set()
        work = [l]
        while work:
            x = work.pop()
            if x in seen or x is None:
                continue
            seen.add(x)
            for (bb_, idx_, lhs_, rhs_) in b.def_sites(x):
                if isinstance(rhs_, Call):
                    for a in rhs_.args:
                        if op_place(a) is not None:
                            work.append(op_local(a))
                elif rhs_["k"] == "agg" and rhs_["ak"] == "array":
                    seqs.append(rhs_["ops"])
                else:
                    for pp_ in rv_places(rhs_):
                        work.append(pl_local(pp_))
        for i_, j_, st in b.stmts():
            if st["k"] == "assign" and not isinstance(st["place"], int) and st["rv"]["k"] == "agg" and st["rv"]["ak"] == "array" and pl_local(st["place"]) in seen:
                seqs.append(st["rv"]["ops"])
        for ops in seqs:
            kinds = []
            for o in ops:
                e = expr(b, o)
                if re.search(r"Inline::LineBreak", e):
                    kinds.append(("break", e))
                else:
                    kinds.append(("text", e))
            for k_, (kind, e) in enumerate(kinds):
                if kind == "break" and k_ + 1 < len(kinds) and kinds[k_ + 1][0] == "text":
                    nlb += 1
                    nxt = kinds[k_ + 1][1]
                    const_text = re.fullmatch(r"(roman|bold|italic)\('[^']*'\)", nxt) is not None
                    res.check(const_text, "R19.1", "after-linebreak|%s" % b.q, c.where(), "inline after a LineBreak is the constant %s" % nxt[:40],
                              "author text is placed right after Inline::LineBreak in one Roff::text call (%s): roff does not protect a leading `.` there, so a line of the text can become a request" % nxt[:80])
        # inlines accumulated with Vec::push: order is not tracked, so a LineBreak and author text in one vector is a hazard
        from strflow import ref_targets
        pushed = []
        for pc in b.calls_to(r"std::vec::Vec::push$"):
            if pc.args and (ref_targets(b, op_local(pc.args[0])) & seen):
                pushed.append(expr(b, pc.args[1]))
        if pushed:
            has_break = any(re.search(r"Inline::LineBreak", e) for e in pushed)
            dyn = [e for e in pushed if not re.search(r"Inline::LineBreak", e) and not re.fullmatch(r"(roman|bold|italic)\('[^']*'\)", e)]
            res.check(not (has_break and dyn), "R19.1", "linebreak-in-accumulated-line|%s" % b.q, c.where(), "no LineBreak mixed with author text in one accumulated text line",
                      "a text line accumulated with push() contains Inline::LineBreak together with author text (%s): the inline after the break starts an output line without roff's leading-dot protection" % dyn[0][:60])
    res.floor("R19.1", "LineBreak-followed-by-text sites", nlb, 1)
    # no raw writes to the output besides roff.to_writer
    raw = [c for b in mg.bodies for c in b.calls_to(r"io::Write>?::(write_all|write_fmt|write)$", r"Write::write_all$", r"Write::write_fmt$")]
    for c in raw:
        res.violation("R19.1", "raw-write|" + c.body.q, c.where(), "clap_mangen writes to the output bypassing Roff (text would not be escaped)")
    if not raw:
        res.ok("R19.1", "raw-write|none", "clap_mangen", "output only through Roff::to_writer")

    # ---- R19.2 guard dominance in Man::render
    # the three one-line predicates app_has_* are inlined into render first, so that the helper form and the written-out form are one
    import facts as _F
    _F.inline_functions(fx, {"clap_mangen::app_has_arguments", "clap_mangen::app_has_subcommands", "clap_mangen::app_has_version"})
    rd = fx.body("clap_mangen::Man::render")
    guards_tbl = {
        "_render_options_section": r"^any\(get_arguments\(self\.cmd\),closure\(\)\)$",
        "_render_subcommands_section": r"^any\(get_subcommands\(self\.cmd\),closure\(\)\)$",
        "_render_version_section": r"^is_some\(or_else\(get_version\(self\.cmd\),closure\([\w.]*\)\)\)$",
        "_render_extra_section": r"is_some\(get_after(_long)?_help\(",
        "_render_authors_section": r"^is_some\(get_author\(",
    }
    for fn_, grx in guards_tbl.items():
        cs = rd.calls_to(r"clap_mangen::Man::%s$" % fn_)
        res.floor("R19.2", "%s call in render" % fn_, len(cs), 1)
        for c in cs:
            gl = guard_strs(rd, c.bb)
            okg = any(g.startswith("T:") and re.search(grx, g[2:]) for g in gl) or only_if_any_true(rd, c.bb, grx)
            res.check(okg, "R19.2", "section-guard|" + fn_, c.where(), "%s only on %s" % (fn_, grx), "%s rendered without its has-content guard (guards: %s)" % (fn_, gl))
    vs = [c for c in rd.calls_to(r"Option(<[^>]*>)?::or_else$") if expr(rd, c.args[0]) == "get_version(self.cmd)"]
    res.check(bool(vs) and all(any(cb.calls_to(r"Command::get_long_version$") for cb in own_closures(fx, c)) for c in vs), "R19.2", "predicate|app_has_version", rd.where(),
              "version section predicate = get_version().or_else(get_long_version).is_some()", "the version section predicate no longer consults get_long_version")

    # ---- R19.3 HIDE
    n = 0
    for b in mg.bodies:
        for c in b.calls_to(ITEM_SRC):
            if not isinstance(c.dest, int):
                continue
            n += 1
            cls, det = classify_mangen(fx, b, c)
            res.check(cls != "unfiltered", "R19.3", "hide|%s|%s" % (b.q, c.callee_q.rsplit("::", 1)[1]), c.where(), "%s (%s)" % (cls, det),
                      "%s: items from %s reach the page without an is_hide_set filter (%s); sibling loops in the same module filter hidden items" % (
                          b.q.rsplit("::", 1)[1], c.callee_q.rsplit("::", 1)[1], det))
    res.floor("R19.3", "item iteration sites in clap_mangen", n, 8)
    from rules.c12 import listing_filters
    nlf = listing_filters(fx, res, "R19.3", r"^clap_mangen::")
    res.floor("R19.3", "listing filters in clap_mangen", nlf, 8)

    # ---- R19.4 PANIC + DET
    pubs = [b for b in mg.bodies if b.d.get("vis") == "Public" and b.kind != "Closure"]
    res.floor("R19.4", "public entry points of clap_mangen", len(pubs), 15)
    pred = fx.reachable_from(pubs, crates={"clap_mangen"})
    bodies = [v[0] for v in pred.values()]
    inv = panics.inventory(fx, bodies, engine=vset.Engine(fx, max_depth=2))
    panics.apply_audit(res, "R19.4", inv, panics.load_audit(AUDIT))
    nd = nondet_calls(fx, bodies)
    for c in nd:
        res.violation("R19.4", "nondet|" + c.body.q, c.where(), "nondeterminism source %s reachable from the man generator" % c.callee_q)
    if not nd:
        res.ok("R19.4", "det|none", "clap_mangen", "%d bodies, no nondeterminism source called" % len(bodies))
    # Man::new builds the command first (get_num_args().expect("built") in render.rs)
    mn = fx.body("clap_mangen::Man::new")
    bl = mn.calls_to(r"Command::build$")
    res.check(bool(bl) and all(mn.block_dominates(bl[0].bb, c.bb) for c in mn.calls() if c is not bl[0]), "R19.4", "B|man-new-builds", mn.where(),
              "Man::new calls cmd.build() before anything else", "Man::new no longer builds the command first")


    # ---- R19.3c option sections are a PARTITION of the visible arguments: first those without a heading, then one `partition` per heading
    # over everything that is left — any positional narrowing (take_while / take / skip / drain / find ...) assumes an order of the
    # definitions and loses arguments when a heading is used for non-adjacent arguments
    ros = fx.body("clap_mangen::Man::_render_options_section")
    ro = [c for c in ros.calls_to(r"render::options$")]
    res.floor("R19.3", "render::options calls in _render_options_section", len(ro), 2)
    for c in ro:
        e = expr(ros, c.args[1])
        res.check(re.search(r"partition\(", e) is not None, "R19.3", "effect|options-from-partition", c.where(), "rendered arguments are one side of a partition of the visible arguments",
                  "_render_options_section renders %s: not a side of a `partition` of the visible arguments" % e[:100])
    narrow = [c for t in tree(ros) for c in t.calls_to(r"Iterator>?::(take_while|skip_while|take|skip|nth|step_by|find|position|rposition|last|map_while)$", r"Vec(<[^>]*>)?::(drain|truncate|split_off|pop|remove|swap_remove|retain|dedup\w*)$")]
    res.check(not narrow, "R19.3", "effect|options-sections-cover-all", ros.where(), "no positional narrowing of the argument lists",
              "_render_options_section selects arguments with %s: arguments of a heading that are not adjacent in definition order are rendered nowhere" % sorted(set(c.callee_q.rsplit("::", 1)[1] for c in narrow)))

    # ---- R19.2b the section predicates say exactly "there is a visible item" (a narrower test drops a section that has something to show)
    rd = fx.body("clap_mangen::Man::render")
    for n_, src in (("app_has_arguments", "get_arguments(self.cmd)"), ("app_has_subcommands", "get_subcommands(self.cmd)")):
        anyc = [c for c in rd.calls_to(r"Iterator>?::any$") if expr(rd, c.args[0]) == src]
        okp = len(anyc) == 1
        cbs = own_closures(fx, anyc[0]) if anyc else []
        okc = bool(cbs) and all(re.fullmatch(r"Not\(is_hide_set\(\w+\)\)", expr(cb, 0)) and len([x for x in cb.calls() if not sp_macro(x.sp)]) == 1 for cb in cbs)
        res.check(okp and okc, "R19.2", "section-predicate|" + n_, rd.where(), "%s = any item is not hidden" % n_,
                  "the section predicate over %s is no longer `any(!is_hide_set)` (%s): a section with visible items can be skipped, those items are then named nowhere on the page" % (src, [expr(cb, 0)[:60] for cb in cbs]))


def classify_mangen(fx, b, c):
    """HIDE classification for a source call in clap_mangen (filter closure / guarded loop / presence)."""
    def xfer(cc, ta):
        return 0 in ta
    t = taint_forward(b, [c.dest], call_transfer=xfer)
    users = [u for u in b.calls() if u is not c and u.args and op_local(u.args[0]) in t]
    for u in users:
        for cb in closure_bodies(fx, u):
            for x in tree(cb):
                if x.calls_to(r"(Arg|Command|PossibleValue)::is_hide_set$"):
                    return "filtered", "closure calls is_hide_set"
    cls, det = classify(fx, b, c.dest)
    if cls in ("filtered", "guarded-loop", "presence"):
        return cls, det
    # a get_arguments().filter(is_positional) etc. without a hide test
    return "unfiltered", det or "no is_hide_set test on the iterator"


def only_if_any_true(body, bb, rx):
    """bb is unreachable once the true edges of every bool switch whose condition matches rx are removed
    (i.e. it needs at least one of those predicates to hold: `a || b` guards)."""
    cut = []
    for i, bl in enumerate(body.blocks):
        t = bl["term"]
        if t["k"] == "switch" and t["ty"] == "bool":
            e = expr(body, t["op"])
            if re.search(rx, e):
                cut.append((i, t["otherwise"]))
    if not cut:
        return False
    seen = {0}
    work = [0]
    while work:
        x = work.pop()
        for s in body.succ(x):
            if (x, s) in cut or s in seen:
                continue
            seen.add(s)
            work.append(s)
    return bb not in seen

