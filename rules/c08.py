"""C08 — equivalent spellings of the same invocation parse to identical matches."""
import re
from rulekit import *

EXPLANATION = (
    "Structural necessary conditions for spelling equivalence: R8.1 `--opt=v`: ParsedArg::to_long splits with split_once(\"=\") "
    "whose cut point is OsStrExt::find (first occurrence, never rfind); `-o=v`: the short path strips exactly one leading `=` "
    "with strip_prefix(\"=\") and only after a value-taking option was found. R8.2 aliases are first-class keys: "
    "mkeymap::append_keys reads all of Arg::{index, short, long, short_aliases, aliases} and pushes a Key for each; every "
    "argv-path lookup of an option goes through the key map (Command::contains_short = MKeyMap::contains, "
    "parse_long_arg/parse_short_arg = get_keymap().get); subcommand lookups (aliases_to, short_flag_aliases_to, "
    "long_flag_aliases_to) consult the *all aliases* iterators. R8.3 unique-candidate idiom at the three inference sites "
    "(parse_long_arg, possible_subcommand, possible_long_flag_subcommand): Iterator::next is called twice on one iterator and "
    "the first item is returned only on the is_none edge of the second; the exact lookup is tried as well so an exact name "
    "wins; the candidate iterator covers names and ALL aliases (get_all_aliases / get_all_long_flag_aliases / Arg::aliases). "
    "R8.4 the escape token itself changes nothing but the mode: in Parser::parse the region entered on is_escape() calls no ArgMatcher/Parser mutator other than start_trailing (in particular it does not resolve the pending positional, so `a -- b` groups values like `a b`). R8.2b alias siblings: aliases_to / short_flag_aliases_to / long_flag_aliases_to answer `primary spelling || any(all aliases)` on every path. NOT decided: equality of matches under rewrites (needs execution)."
    ' R8.3 (added): inference candidates are drawn from every subcommand/argument (no pre-filter) and a subcommand lookup answers only with the unique inferred candidate or the exact name (return-value census).'
    ' R8.6: Parser::parse canonicalises the subcommand text through find_subcommand(..).get_name() before dispatching to parse_subcommand.'
    " R8.A accessor layer (lib/accessors.py): for the is_*_set / get_* accessors this property's rules name — the bool builder sets and unsets one flag on the right edges and the predicate reads that same flag; builder scope (global/local) as in audit/setting_scope.tsv; no two predicates/builders share a flag; setting/unset_setting/global_setting/is_set forward to the right flag word, the flag word is |=bit / &=!bit / &bit!=0 with bit = 1<<discriminant, _propagate_subcommand hands g_settings to the child's settings and g_settings; plain field getters return their field."
)
TRUSTED = ["rustc MIR", "clapfacts"]
ASSUMPTIONS = ["C13 R13.3 (split at the first `=`) and C02 R2.4 (short attached value) are checked by their own properties too"]


def alias_siblings(fx, res, rule):
    """Command::{aliases_to, short_flag_aliases_to, long_flag_aliases_to}: a subcommand answers to its primary name/flag or to ANY
    of its aliases — every way the functions produce their result is `true` under an equality with the primary spelling or the
    result of any() over the complete alias iterator (also when there is no primary flag)."""
    TBL = {"aliases_to": ("get_all_aliases(self)", r"^T:eq\(get_name\(self\),name\)$"),
           "short_flag_aliases_to": ("get_all_short_flag_aliases(self)", r"^T:eq\((Option::Some\(flag\),self\.short_flag|self\.short_flag,Option::Some\(flag\))\)$"),
           "long_flag_aliases_to": ("get_all_long_flag_aliases(self)", r"^T:eq\(self\.long_flag#Some\.0,flag\)$")}
    for fn_, (it, eqrx) in TBL.items():
        b = fx.body("clap_builder::builder::command::Command::" + fn_)
        defs = b.def_sites(0)
        bad, n_any = [], 0
        for d in defs:
            rv = d[3]
            if isinstance(rv, dict):
                if rv["k"] == "use" and op_int(rv["op"]) == 1 and any(re.match(eqrx, g) for g in guard_strs(b, d[0])):
                    continue
                # `self.<primary>.as_ref().is_some_and(|p| p == query)`: the same equality, false when there is no primary spelling
                prim = {"short_flag_aliases_to": "self.short_flag", "long_flag_aliases_to": "self.long_flag"}.get(fn_)
                isa = [c for c in b.calls_to(r"Option::is_some_and$") if prim and expr(b, c.args[0]) == prim and ("T:" + expr(b, c.dest)) in guard_strs(b, d[0])]
                if rv["k"] == "use" and op_int(rv["op"]) == 1 and isa and all(
                        re.fullmatch(r"(eq|Eq)\((\w+,arg1\.0|arg1\.0,\w+)\)", strip_transparent(expr(cb, 0))) for c in isa for cb in own_closures(fx, c)):
                    continue
                bad.append("bb%d: %s under %s" % (d[0], rv.get("k"), [g[:50] for g in guard_strs(b, d[0])]))
            else:
                cbe = [expr(cb, 0) for cb in closure_bodies(fx, rv)]
                okc = rv.callee_q.endswith("::any") and expr(b, rv.args[0]) == it and any(re.fullmatch(r"(eq|Eq)\((alias,arg1\.0|arg1\.0,alias)\)", e) for e in cbe)
                if okc:
                    n_any += 1
                else:
                    bad.append("bb%d: %s(%s)" % (d[0], rv.callee_q.rsplit("::", 1)[1], expr(b, rv.args[0])[:50]))
        # no path may return without having compared the aliases or hit the primary spelling: every return def is one of the two forms
        res.check(not bad and n_any >= 1, rule, "alias-sibling|" + fn_, b.where(), "primary spelling || any(%s == query)" % it,
                  "%s can answer without consulting %s (%s): a subcommand is not recognised by some of its aliases" % (fn_, it, bad or "no any() over the aliases"))


def inference_candidates(fx, res, rule):
    """Shared with C10 (a token wrongly taken for a subcommand makes a fault-free line fail)."""
    # the candidates of an inference are ALL subcommands / arguments of the command (no pre-filter: a hidden or otherwise excluded item still
    # answers to its exact name, so leaving it out of the candidates changes which prefixes are ambiguous), and a subcommand lookup answers
    # only with the unique inferred candidate or the exact name
    SRC = {"possible_subcommand": r"filter_map\(get_subcommands\(self\.cmd\),closure\([^()]*(\([^()]*\))?[^()]*\)\)",
           "possible_long_flag_subcommand": r"filter_map\(get_subcommands\(self\.cmd\),closure\([^()]*(\([^()]*\))?[^()]*\)\)",
           "parse_long_arg": r"filter_map\(get_arguments\(self\.cmd\),closure\([^()]*(\([^()]*\))?[^()]*\)\)"}
    for fn_, srx in SRC.items():
        b = fx.body("clap_builder::parser::parser::Parser::" + fn_)
        its = set(expr(b, c.args[0]) for c in b.calls_to(r"Iterator>?::next$") if re.search(r"filter_map\(", expr(b, c.args[0])) and not re.search(r"into_iter\(", expr(b, c.args[0])))
        for it in its:
            res.check(re.fullmatch(srx, it) is not None, rule, "candidates-unfiltered|" + fn_, b.where(), "inference candidates drawn from every item of the command",
                      "%s infers from a pre-filtered candidate list (%s): an item left out of the candidates (e.g. a hidden subcommand) still answers to its exact name, so prefixes are (un)ambiguous differently from what the names say" % (fn_, it[:110]))
        if fn_ == "parse_long_arg":
            continue
        exact_rx = r"get_name\(find_subcommand\(self\.cmd,.*\)#Some\.0\)" if fn_ == "possible_subcommand" else r"find_long_subcmd\(self\.cmd,.*\)#Some\.0"
        for d in b.def_sites(0):
            rv = d[3]
            if isinstance(rv, dict) and rv["k"] == "agg" and rv.get("variant") == "None":
                continue
            if isinstance(rv, dict) and rv["k"] == "use" and expr(b, rv["op"]) in ("next(%s)" % it for it in its):
                continue
            if isinstance(rv, dict) and rv["k"] == "agg" and rv.get("variant") == "Some" and re.fullmatch(exact_rx, expr(b, rv["ops"][0])):
                continue
            if isinstance(rv, dict) and rv["k"] == "use":
                fc_ = [c for c in b.calls_to(r"Option(<[^>]*>)?::filter$") if expr(b, c.dest) == expr(b, rv["op"]) and expr(b, c.args[0]) in ("next(%s)" % it for it in its)]
                if fc_ and all(cb.calls_to(r"Option(<[^>]*>)?::is_none$") and cb.calls_to(r"Iterator>?::next$") for c in fc_ for cb in own_closures(fx, c)):
                    continue    # iter.next().filter(|_| iter.next().is_none()): the unique inferred candidate
            if isinstance(rv, Call) and rv.is_(r"Option(<[^>]*>)?::filter$") and expr(b, rv.args[0]) in ("next(%s)" % it for it in its) \
                    and all(cb.calls_to(r"Option(<[^>]*>)?::is_none$") and cb.calls_to(r"Iterator>?::next$") for cb in own_closures(fx, rv)) and closure_bodies(fx, rv):
                continue        # iter.next().filter(|_| iter.next().is_none()): the unique inferred candidate
            if isinstance(rv, Call) and rv.is_(r"Option(<[^>]*>)?::map$") and fn_ == "possible_subcommand" and re.fullmatch(r"find_subcommand\(self\.cmd,.*\)", expr(b, rv.args[0])) \
                    and all(re.fullmatch(r"get_name\(\w+\)", expr(cb, 0)) for cb in own_closures(fx, rv)):
                continue        # find_subcommand(arg).map(|sc| sc.get_name()): the same exact-name answer
            what = expr(b, rv["op"]) if isinstance(rv, dict) and rv["k"] == "use" else (expr(b, rv["ops"][0]) if isinstance(rv, dict) and rv.get("ops") else str(rv))
            res.violation(rule, "lookup-answers|" + fn_, "%s bb%d" % (b.where(), d[0]), "%s can also answer %s: a token is taken for a subcommand although it is neither its exact name/alias nor a unique prefix (another spelling of an existing name, a value of a positional ...)" % (fn_, what[:120]))


def run(ctx):
    fx, res = ctx.fx, ctx.res
    # ---- R8.1
    tl = fx.body("clap_lex::ParsedArg::to_long")
    so = tl.calls_to(r"OsStrExt>?::split_once$")
    res.check(len(so) == 1 and const_of(tl, so[0].args[1]) == "=", "R8.1", "long-split-once-equals", tl.where(), "to_long = strip_prefix(\"--\") then split_once(\"=\")", "to_long no longer splits the name from the value at `=` with split_once")
    sb = fx.body("<std::ffi::os_str::OsStr as clap_lex::ext::OsStrExt>::split_once")
    res.check(len(sb.calls_to(r"OsStrExt>?::find$")) == 1 and not tree_calls(sb, r"rfind|::rev$|rposition|::last$"), "R8.1", "split-at-first", sb.where(), "split_once cuts at find() = first occurrence", "split_once no longer cuts at the first occurrence")
    fd = fx.body("<std::ffi::os_str::OsStr as clap_lex::ext::OsStrExt>::find")
    fms = first_match_scan(fx, fd)
    res.check(bool(fms) and fms["first"], "R8.1", "find-forward", fd.where(), "find scans forward", "OsStrExt::find no longer returns the first match")
    ps = fx.body("clap_builder::parser::parser::Parser::parse_short_arg")
    spx = [c for x in tree(ps) for c in x.calls_to(r"OsStrExt>?::strip_prefix$")]
    res.check(len(spx) == 1 and const_of(spx[0].body, spx[0].args[1]) == "=", "R8.1", "short-strip-one-equals", ps.where(), "`-o=v`: exactly one leading `=` stripped", "short attached value: expected one strip_prefix(\"=\"), found %s" % [const_of(c.body, c.args[1]) for c in spx])
    bad = [c for x in tree(ps) for c in x.calls_to(r"trim_start_matches|OsStrExt>?::split_once$|OsStrExt>?::split$")]
    res.check(not bad, "R8.1", "short-no-other-cut", ps.where(), "no other cutting of the attached value", "short attached value is also cut with %s" % [c.callee_q for c in bad])

    # ---- R8.2 keys
    ak = fx.body("clap_builder::mkeymap::append_keys")
    for fld in ("index", "short", "long", "short_aliases", "aliases"):
        res.check(reads_field(ak, fld), "R8.2", "append_keys-reads|" + fld, ak.where(), "append_keys registers Arg::%s" % fld, "append_keys no longer registers Arg::%s as keys" % fld)
    pushes = ak.calls_to(r"Vec::push$") + [c for c in ak.calls_to(r"Extend(<[^>]*>)?>?::extend$") if re.search(r"keys\)?$", expr(ak, c.args[0]))]      # keys.extend(aliases.iter().map(..)) counts
    res.check(len(pushes) >= 5, "R8.2", "append_keys-pushes", ak.where(), "%d key pushes (position, short, long, short aliases, aliases)" % len(pushes), "append_keys pushes only %d keys" % len(pushes))
    kinds = set()
    for i, j, s in ak.stmts():
        if s["k"] == "assign" and s["rv"]["k"] == "agg" and s["rv"].get("adt", "").endswith("KeyType"):
            kinds.add(s["rv"]["variant"])
    res.check(kinds == {"Position", "Short", "Long"}, "R8.2", "append_keys-kinds", ak.where(), "keys of kinds %s" % sorted(kinds), "append_keys builds key kinds %s" % sorted(kinds))
    cs = fx.body("clap_builder::builder::command::Command::contains_short")
    direct = [c for c in cs.calls() if not sp_macro(c.sp) and not c.is_(r"Command::is_set$")]
    res.check(len(direct) == 1 and direct[0].is_(r"MKeyMap::contains$") and not tree_calls(cs, r"Arg::get_short$", r"MKeyMap::args$"), "R8.2", "contains_short-via-keymap", cs.where(), "contains_short = key-map lookup (sees short aliases)", "Command::contains_short no longer goes through the key map: %s" % [c.callee_q for c in direct])
    pl = fx.body("clap_builder::parser::parser::Parser::parse_long_arg")
    g1 = [c for c in pl.calls_to(r"MKeyMap::get$") if expr(pl, c.args[1]).startswith("long_arg")]
    res.check(bool(g1), "R8.2", "long-lookup-via-keymap", pl.where(), "long options are looked up in the key map", "parse_long_arg no longer looks the name up in the key map")
    g2 = [c for c in ps.calls_to(r"MKeyMap::get$") if re.search(r"next_flag\(", expr(ps, c.args[1]))]
    res.check(bool(g2), "R8.2", "short-lookup-via-keymap", ps.where(), "short flags are looked up in the key map", "parse_short_arg no longer looks each flag up in the key map")
    for fn_, need in (("aliases_to", r"Command::get_all_aliases$"), ("short_flag_aliases_to", r"Command::get_all_short_flag_aliases$"), ("long_flag_aliases_to", r"Command::get_all_long_flag_aliases$")):
        b = fx.body("clap_builder::builder::command::Command::" + fn_)
        res.check(bool(tree_calls(b, need)), "R8.2", "subcommand-alias-lookup|" + fn_, b.where(), "%s consults %s" % (fn_, need.rstrip("$").rsplit("::", 1)[1]), "%s no longer consults every alias" % fn_)
    for fn_, need in (("find_subcommand", r"Command::aliases_to$"), ("find_short_subcmd", r"Command::short_flag_aliases_to$"), ("find_long_subcmd", r"Command::long_flag_aliases_to$")):
        b = fx.body("clap_builder::builder::command::Command::" + fn_)
        res.check(bool(tree_calls(b, need)), "R8.2", "subcommand-lookup|" + fn_, b.where(), "%s matches name or alias" % fn_, "%s no longer uses %s" % (fn_, need))
    for fn_, fld in (("get_all_aliases", "aliases"), ("get_all_short_flag_aliases", "short_flag_aliases"), ("get_all_long_flag_aliases", "long_flag_aliases")):
        b = fx.body("clap_builder::builder::command::Command::" + fn_)
        res.check(reads_field(b, fld) and not tree_calls(b, r"Iterator::filter$"), "R8.2", "all-aliases-unfiltered|" + fn_, b.where(), "%s yields every alias (visible and hidden)" % fn_, "%s filters aliases" % fn_)

    # ---- R8.3 unique candidate
    sites = [("possible_subcommand", [r"Command::get_name$", r"Command::get_all_aliases$"], r"Command::find_subcommand$"),
             ("possible_long_flag_subcommand", [r"Command::get_long_flag$", r"Command::get_all_long_flag_aliases$"], r"Command::find_long_subcmd$"),
             ("parse_long_arg", [r"Arg::get_long$"], r"MKeyMap::get$")]
    for fn_, cand, exact in sites:
        b = fx.body("clap_builder::parser::parser::Parser::" + fn_)
        nx = [c for c in b.calls_to(r"Iterator>?::next$") if re.search(r"filter_map\(", expr(b, c.args[0])) and not re.search(r"into_iter\(", expr(b, c.args[0]))]
        cl_next = [c for x in tree(b) if x is not b for c in x.calls_to(r"Iterator>?::next$") if re.search(r"arg1\.", expr(x, c.args[0]))]
        its = set(expr(b, c.args[0]) for c in nx)
        two = len(nx) + len(cl_next) >= 2
        # the first item is only used when the second next() is None
        uniq = False
        if len(nx) >= 2:
            second = nx[1]
            isn = [c for c in b.calls_to(r"Option::is_none$") if expr(b, c.args[0]) == expr(b, second.dest)]
            uniq = bool(isn)
        if not uniq and cl_next:
            # `iter.next().filter(|_| iter.next().is_none())`
            uniq = any(x.calls_to(r"Option::is_none$") for x in tree(b) if x is not b and x.calls_to(r"Iterator>?::next$")) and bool(b.calls_to(r"Option::filter$"))
        res.check(two and uniq, "R8.3", "unique-candidate|" + fn_, b.where(), "first match accepted only if a second next() is None",
                  "%s no longer requires the inferred candidate to be unique (an ambiguous prefix would be resolved silently)" % fn_)
        missing = [n_ for n_ in cand if not tree_calls(b, n_)]
        if fn_ == "parse_long_arg":
            if not any(reads_field(x, "aliases") for x in tree(b)):
                missing.append("Arg::aliases")
        res.check(not missing, "R8.3", "candidates-include-all-aliases|" + fn_, b.where(), "inference candidates: names and all aliases", "%s infers only from %s: missing %s (a prefix of an alias is (not) ambiguous differently from the canonical name)" % (
            fn_, [c_.rstrip("$").rsplit("::", 1)[1] for c_ in cand], missing))
        res.check(bool(b.calls_to(exact)), "R8.3", "exact-lookup|" + fn_, b.where(), "exact name lookup present (exact match wins)", "%s lost its exact lookup" % fn_)
        # inference is behind its setting
        setrx = r"is_infer_subcommands_set\(" if "subcommand" in fn_ else r"is_infer_long_args_set\("
        if nx:
            res.check(has_bool(b, nx[0].bb, "T", setrx), "R8.3", "inference-gated|" + fn_, nx[0].where(), "prefix inference only when enabled", "%s infers prefixes without the setting" % fn_)
    inference_candidates(fx, res, "R8.3")
    # possible_subcommand candidates must not be hidden-only aliases: get_aliases (hidden only) must not replace get_all_aliases
    b = fx.body("clap_builder::parser::parser::Parser::possible_subcommand")
    res.check(not tree_calls(b, r"Command::get_aliases$", r"Command::get_visible_aliases$"), "R8.3", "no-partial-alias-set|possible_subcommand", b.where(), "no visible-only / hidden-only alias iterator used",
              "possible_subcommand infers from a partial alias set (get_aliases/get_visible_aliases)")

    # ---- R8.6 dispatch by canonical name: what the lookups hand to `parse` may be an ALIAS text (the inference branch returns the matched
    # alias), while parse_subcommand/_build_subcommand find a subcommand by its NAME only — so `parse` must canonicalise at the dispatch
    pp_ = fx.body("clap_builder::parser::parser::Parser::parse")
    disp = pp_.calls_to(r"Parser::parse_subcommand$")
    res.floor("R8.6", "parse_subcommand dispatch in parse", len(disp), 1)
    for c in disp:
        e = expr(pp_, c.args[1])
        res.check(re.fullmatch(r"(to_owned|to_string|clone|into)\(get_name\((expect|unwrap)\(find_subcommand\(self\.cmd,.*\).*\)\)\)", e) is not None, "R8.6", "dispatch-by-canonical-name", c.where(),
                  "parse_subcommand(find_subcommand(name).get_name())", "parse dispatches to parse_subcommand(%s): the text is not canonicalised through find_subcommand(..).get_name(); an alias (or a prefix of one, under inference) selects no subcommand and the rest of the line is silently dropped" % e[:120])
    alias_siblings(fx, res, "R8.2")
    # ---- R8.4 `--` only switches the mode
    pp = fx.body("clap_builder::parser::parser::Parser::parse")
    esc = [c for c in pp.calls() if not sp_macro(c.sp) and has_bool(pp, c.bb, "T", r"^is_escape\(") and c.callee_q and re.search(r"::(ArgMatcher|Parser)::", c.callee_q)]
    res.floor("R8.4", "mutator calls in the escape region of parse", len(esc), 1)
    other = [c for c in esc if not c.is_(r"ArgMatcher::start_trailing$")]
    res.check(not other, "R8.4", "escape-only-switches-mode", esc[0].where() if esc else pp.where(), "on `--` only start_trailing is called",
              "on the `--` token parse also calls %s: the explicit escape changes how values before/after it are grouped" % [c.callee_q.rsplit("::", 1)[1] for c in other])

    # ---- R8.5 prefix inference is a tree-wide setting (shared with C05 R5.8)
    from rules.c05 import global_setters
    global_setters(fx, res, "R8.5", ["infer_long_args", "infer_subcommands"])
    # ---- R8.6 (shared with C06 R6.8) detached and attached spellings both survive a later error under ignore_errors: pending values are flushed before every in-loop error
