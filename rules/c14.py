"""C14 — OS-string helpers and the argument cursor behave like their simple models."""
import os, re
from rulekit import *
import panics

EXPLANATION = (
    "R14.1 cursor invariant as typestate on the field ArgCursor::cursor: census of every write (allowed clamped forms: 0, "
    "items.len(), min(_, items.len()); unclamped: saturating_add) and every read; a read used as an unchecked range / splice "
    "bound (items[cursor..], splice(cursor..cursor)) is only sound if every writer keeps cursor <= len — contradiction rule: "
    "unchecked reader + unclamped writer = violation; reads through slice::get or clamped with min(.., items.len()) are "
    "checked. R14.2 the OsStrExt helpers work on as_encoded_bytes()/needle.as_bytes() and never go through to_str / "
    "to_string_lossy / Display (except try_str). R14.3 PANIC/P9 over ext.rs and lib.rs. Encapsulation witness "
    "(cursor field not writable from outside) in /verif/witness (thorough). NOT decided: equivalence with the byte-level "
    "model for all inputs and operation histories."
)
TRUSTED = ["rustc MIR", "clapfacts", "lib/panics.py", "audit/panic.tsv"]
ASSUMPTIONS = ["slice::get / Vec::splice / Ord::min behave as documented"]
AUDIT = os.path.join(os.path.dirname(os.path.dirname(os.path.abspath(__file__))), "audit", "panic.tsv")


def run(ctx):
    fx, res = ctx.fx, ctx.res
    cl = fx.crate("clap_lex")
    writers = []
    for b in cl.bodies:
        for i, s in writes_field(b, "cursor"):
            e = expr(b, s["rv"]["op"]) if s["rv"]["k"] == "use" else "?"
            clamped = e == "0" or re.fullmatch(r"len\((self\.)?items\)", e) is not None or re.fullmatch(r"min\(.*,len\((self\.)?items\)\)|min\(len\((self\.)?items\),.*\)", e) is not None
            writers.append((b, e, clamped))
        for i, j, s in b.stmts():
            if s["k"] == "assign" and s["rv"]["k"] == "agg" and s["rv"].get("adt", "").endswith("ArgCursor"):
                e = expr(b, s["rv"]["ops"][0])
                writers.append((b, e, e == "0" or e.startswith("clone(")))
    res.floor("R14.1", "writers of ArgCursor::cursor", len(writers), 5)
    unclamped = [(b, e) for b, e, c in writers if not c]
    readers_unchecked = []
    nreads = 0
    for b in cl.bodies:
        for c in b.calls():
            es = [expr(b, a) for a in c.args]
            if not any(re.search(r"\bcursor\.cursor\b|\.cursor\b", e) for e in es):
                continue
            nreads += 1
            q = c.callee_q or ""
            if re.search(r"ops::index::Index(Mut)?>::index(_mut)?$|Vec::splice$|Vec::drain$|Vec::split_off$|\[T\]::split_at$", q):
                raw = [e for e in es[1:] if re.search(r"cursor", e) and not re.search(r"min\((cursor\.cursor|.*),len\((self\.)?items\)\)", e)]
                if raw:
                    readers_unchecked.append((c, raw[0]))
                else:
                    res.ok("R14.1", "reader-clamped|" + b.q, c.where(), "bound clamped with min(.., items.len()): %s" % es[1][:80])
            elif re.search(r"\[T\]::get$|\[T\]::get_mut$", q):
                res.ok("R14.1", "reader-checked|" + b.q, c.where(), "checked access items.get(cursor)")
    res.floor("R14.1", "reads of the cursor", nreads, 8)
    for b, e, c in writers:
        res.ok("R14.1", "writer|%s|%s" % (b.q, "clamped" if c else "unclamped"), b.where(), "cursor := %s" % e)
    for c, raw in readers_unchecked:
        if unclamped:
            res.violation("R14.1", "unchecked-read|" + c.body.q, c.where(),
                          "cursor used as an unchecked bound (%s) while %s stores an unclamped value (%s): cursor may exceed items.len()" % (
                              raw, unclamped[0][0].q, unclamped[0][1]))
        else:
            res.ok("R14.1", "unchecked-read-ok|" + c.body.q, c.where(), "unchecked bound but every writer clamps to items.len()")
    # seek: saturating signed arithmetic then clamp
    sk = fx.body("clap_lex::RawArgs::seek")
    res.check(len(sk.calls_to(r"i64::saturating_add$")) >= 2 and len(sk.calls_to(r"Ord>?::max$", r"cmp::max$")) >= 2 and len(sk.calls_to(r"Ord>?::min$", r"cmp::min$")) >= 1,
              "R14.1", "seek-saturating", sk.where(), "seek uses saturating_add + max(0) + min(len)", "seek no longer saturates/clamps its arithmetic")

    # seek bases: Start -> pos, End -> len + pos, Current -> cursor + pos (table over the SeekFrom arms)
    BASE = {"End": "len(self.items)", "Current": "cursor.cursor"}
    seen_arm = set()
    for c in sk.calls_to(r"i64::saturating_add$"):
        a0, a1 = expr(sk, c.args[0]), expr(sk, c.args[1])
        m = re.fullmatch(r"pos#(End|Current)\.0", a1)
        if not m:
            res.violation("R14.1", "seek-base|unrecognised", c.where(), "seek adds %s to %s: the offset is not the payload of a SeekFrom arm" % (a1, a0))
            continue
        seen_arm.add(m.group(1))
        res.check(a0 == BASE[m.group(1)], "R14.1", "seek-base|" + m.group(1), c.where(), "SeekFrom::%s(pos) -> %s + pos" % (m.group(1), BASE[m.group(1)]),
                  "SeekFrom::%s is computed relative to %s, expected %s" % (m.group(1), a0, BASE[m.group(1)]))
    for arm in BASE:
        if arm not in seen_arm and len(sk.calls_to(r"i64::saturating_add$")) >= 2:
            res.violation("R14.1", "seek-base|" + arm, sk.where(), "no SeekFrom::%s(pos) -> base + pos computation found in seek" % arm)
    wr = [(i, s_) for i, s_ in writes_field(sk, "cursor")]
    res.check(len(wr) == 1 and wr[0][1]["rv"]["k"] == "use" and re.fullmatch(r"min\((\w+,len\(self\.items\)|len\(self\.items\),\w+)\)", expr(sk, wr[0][1]["rv"]["op"])) is not None, "R14.1", "seek-clamped-store", sk.where(),
              "cursor := min(pos, items.len())", "seek stores %s" % [expr(sk, s_["rv"]["op"]) if s_["rv"]["k"] == "use" else s_["rv"]["k"] for i, s_ in wr])
    # peek / is_end / next_os read the element AT the cursor through the checked accessor
    for fn_ in ("peek_os", "next_os"):
        b_ = fx.body("clap_lex::RawArgs::" + fn_)
        g_ = b_.calls_to(r"\[T\]::get$")
        res.check(len(g_) == 1 and expr(b_, g_[0].args[1]) == "cursor.cursor", "R14.1", "element-at-cursor|" + fn_, b_.where(), "%s = items.get(cursor)" % fn_,
                  "%s reads items.get(%s)" % (fn_, expr(b_, g_[0].args[1]) if g_ else "?"))
    no = fx.body("clap_lex::RawArgs::next_os")
    wn = writes_field(no, "cursor")
    res.check(len(wn) == 1 and wn[0][1]["rv"]["k"] == "use" and expr(no, wn[0][1]["rv"]["op"]) == "saturating_add(cursor.cursor,1)", "R14.1", "next-advances-by-one", no.where(),
              "next_os advances the cursor by exactly one", "next_os advances the cursor by %s" % [expr(no, s_["rv"]["op"]) if s_["rv"]["k"] == "use" else s_["rv"]["k"] for i, s_ in wn])
    ie_ = fx.body("clap_lex::RawArgs::is_end")
    d_ = ie_.def_sites(0)
    forms = []
    for d in d_:
        rv = d[3]
        if isinstance(rv, dict) and rv["k"] == "binop":
            forms.append("%s(%s,%s)" % (rv["op"], expr(ie_, rv["a"]), expr(ie_, rv["b"])))
        elif isinstance(rv, dict):
            forms.append(rv["k"])
        else:
            forms.append("%s(%s)" % (rv.callee_q.rsplit("::", 1)[1], expr(ie_, rv.args[0])))
    # match form: `match self.peek_os(cursor) { Some(_) => false, None => true }` — constant results on the variant edges of the same lookup
    consts = [(op_int(d[3]["op"]), guard_strs(ie_, d[0])) for d in d_ if isinstance(d[3], dict) and d[3]["k"] == "use" and op_int(d[3]["op"]) in (0, 1)]
    if len(consts) == len(d_) == 2:
        for look in ("peek_os(self,cursor)", "get(self.items,cursor.cursor)"):
            if sorted((v, tuple(g for g in gl if g.endswith(":" + look))) for v, gl in consts) == [(0, ("V1:" + look,)), (1, ("V0:" + look,))]:
                forms = ["is_none(%s)" % look]
    # Option::map keeps None-ness: is_none(x.map(f)) == is_none(x)   (peek_os written out in place)
    forms = [re.sub(r"^is_none\(map\((.*),closure\([^()]*\)\)\)$", r"is_none(\1)", f_) for f_ in forms]
    OKF = {"is_none(peek_os(self,cursor))", "is_none(get(self.items,cursor.cursor))", "Ge(cursor.cursor,len(self.items))", "Le(len(self.items),cursor.cursor)"}
    res.check(len(forms) == 1 and forms[0] in OKF, "R14.1", "is_end", ie_.where(), "is_end = nothing at the cursor (%s)" % forms, "is_end is computed as %s: with the cursor allowed past the end (next_os advances unconditionally) this is not `cursor >= len`" % forms)

    # ---- R14.2 byte helpers are byte helpers
    for b in fx.bodies(r"^<std::ffi::os_str::OsStr as clap_lex::ext::OsStrExt>::", crate="clap_lex"):
        name = b.q.rsplit("::", 1)[1].split("::{")[0]
        if "try_str" in b.q:
            continue
        bad = tree_calls(b, r"OsStr::to_str$", r"to_string_lossy$", r"Display>?::fmt$", r"ToString>?::to_string$", r"str::from_utf8", r"to_lowercase|to_uppercase|to_ascii")
        res.check(not bad, "R14.2", "bytes-only|" + b.q, b.where(), "no text conversion in %s" % name, "%s converts the OS string to text (%s): result differs from the byte-level operation" % (name, bad[0].callee_q if bad else ""))
    for fn_, need in (("find", [r"as_encoded_bytes$"]), ("starts_with", [r"as_encoded_bytes$", r"str::as_bytes$", r"\[T\]::starts_with$"]),
                      ("strip_prefix", [r"as_encoded_bytes$", r"str::as_bytes$", r"\[T\]::strip_prefix$"]), ("contains", [r"OsStrExt>?::find$"]),
                      ("split_once", [r"OsStrExt>?::find$", r"as_encoded_bytes$", r"str::len$"])):
        b = fx.body("<std::ffi::os_str::OsStr as clap_lex::ext::OsStrExt>::" + fn_)
        missing = [n for n in need if not tree_calls(b, n)]
        res.check(not missing, "R14.2", "byte-ops|" + fn_, b.where(), "%s built from %s" % (fn_, [n.rstrip("$") for n in need]), "%s no longer uses %s" % (fn_, missing))
    # the one-line helpers ARE the byte-level operation: exact result expressions
    EXACT = {"strip_prefix": r"map\(strip_prefix\(as_encoded_bytes\(self\),as_bytes\(prefix\)\),closure\(\)\)",
             "starts_with": r"starts_with\(as_encoded_bytes\(self\),as_bytes\(prefix\)\)",
             "contains": r"is_some\(find\(self,needle\)\)"}
    for fn_, rx in EXACT.items():
        b = fx.body("<std::ffi::os_str::OsStr as clap_lex::ext::OsStrExt>::" + fn_)
        defs = b.def_sites(0)
        es = sorted(set((expr(b, {"cp": 0}) if not isinstance(d[3], dict) else (expr(b, d[3]["op"]) if d[3]["k"] == "use" else d[3]["k"])) for d in defs))
        res.check(len(defs) == 1 and re.fullmatch(rx, es[0]) is not None, "R14.2", "exact|" + fn_, b.where(), "%s = %s" % (fn_, es[0][:70]),
                  "%s no longer is exactly the byte-level operation (results: %s): it can answer differently from the same operation on the bytes" % (fn_, [e[:80] for e in es]))
    # find's window: starts_with on bytes[x..] compared with needle bytes
    fd = fx.body("<std::ffi::os_str::OsStr as clap_lex::ext::OsStrExt>::find")
    fms = first_match_scan(fx, fd)
    okw = bool(fms) and any(x.is_(r"\[T\]::starts_with$") for x in fms["test_calls"]) and bool(tree_calls(fd, r"str::as_bytes$"))    # needle.as_bytes() may be hoisted out of the test
    res.check(okw, "R14.2", "find-window", fd.where(), "find tests bytes[x..].starts_with(needle.as_bytes())", "find no longer compares the byte window with the needle bytes")
    # Split::next: uses split_once on the remaining haystack, ends with None haystack
    sp = fx.body("<clap_lex::ext::Split as std::iter::traits::iterator::Iterator>::next")
    res.check(bool(sp.calls_to(r"OsStrExt>?::split_once$")), "R14.2", "split-next", sp.where(), "Split::next = split_once on the rest", "Split::next no longer uses split_once")
    # every piece Split::next hands out is decided by split_once alone: first half + keep the rest, or (no needle left) the whole rest + stop
    H_ = "branch(self.haystack)#Continue.0"
    SO = "split_once(%s,self.needle)" % H_
    pieces = []
    for d in sp.def_sites(0):
        rv = d[3]
        if not (isinstance(rv, dict) and rv["k"] == "agg" and rv.get("variant") == "Some"):
            continue
        piece = expr(sp, rv["ops"][0])
        m_ = re.fullmatch(r"_(\d+)\.(\d+)", piece)
        if m_:
            # `let (item, rest) = if let Some((first, second)) = .. { (first, Some(second)) } else { (haystack, None) }; Some(item)`:
            # one piece per arm of the tuple expression, judged under that arm's conditions
            for td in sp.def_sites(int(m_.group(1))):
                if isinstance(td[3], dict) and td[3]["k"] == "agg" and td[3].get("ak") == "tuple" and len(td[3]["ops"]) > int(m_.group(2)):
                    pieces.append((td[0], expr(sp, td[3]["ops"][int(m_.group(2))])))
        else:
            pieces.append((d[0], piece))
    for bb_, piece in pieces:
        d = (bb_,)
        gl = guard_strs(sp, d[0])
        extra = [g for g in gl if not re.match(r"^(V0:branch\(self\.haystack\)|!?V[01]:split_once\()", g)]
        if piece.startswith(SO + "#Some.0.0"):
            ok_ = ("V1:" + SO) in gl and not extra
        elif piece == H_:
            ok_ = (("!V1:" + SO) in gl or ("V0:" + SO) in gl) and not extra
        else:
            ok_ = False
        res.check(ok_, "R14.2", "split-next-piece|" + ("first-half" if "Some.0.0" in piece else "rest" if piece == H_ else "other"), "%s bb%d" % (sp.where(), d[0]),
                  "piece decided by split_once only", "Split::next yields %s under %s: pieces are no longer exactly those of repeated split_once (e.g. a remainder equal to the needle is returned whole instead of as two empty pieces)" % (piece[:50], [g[:50] for g in extra] or gl))

    # ---- R14.3 PANIC over clap_lex
    inv = panics.inventory(fx, cl.bodies)
    panics.apply_audit(res, "R14.3", inv, panics.load_audit(AUDIT))
    res.floor("R14.3", "panic sites in clap_lex", len(inv), 8)
