"""C06 — command line beats environment beats default, and sources are reported honestly."""
import re
from rulekit import *
import vset
from rules.c03 import explicit_presence_rule

EXPLANATION = (
    "R6.1 phase order: in Parser::get_matches_with parse dominates resolve_pending dominates add_env dominates add_defaults "
    "dominates Validator::validate (block dominance on MIR); the ignore-errors recovery closure applies env before defaults "
    "as well. R6.2 absent-only: every react(.., EnvVariable|DefaultValue, ..) is on the false edge of "
    "matcher.contains(<that arg's id>). R6.3 source constants: census of all react/start_custom_arg call sites with their "
    "constant ValueSource argument — argv-path callers pass CommandLine, add_env passes EnvVariable, add_default_value passes "
    "DefaultValue; react forwards its own `source` parameter unchanged. R6.4 ordering: ValueSource is declared "
    "DefaultValue < EnvVariable < CommandLine with derived Ord, MatchedArg::set_source combines with max, "
    "ValueSource::is_explicit is false exactly for DefaultValue (table by variant-set evaluation). R6.5 missing-value default: "
    "the default_missing_vals injection in react is dominated by raw_vals.is_empty() and comes after verify_num_args. "
    "R6.6 defaults are not presence: Parser::start_custom_arg records groups only on the source.is_explicit() edge and "
    "MatchedArg::check_explicit returns false first for non-explicit sources. R6.7 one default: in Parser::add_default_value the first matching conditional default ends the function (neither the "
    "next condition nor the plain default is reachable after a match, with or without a value), the conditional value comes from "
    "the matching triple and the plain value from Arg::default_vals, and a condition on an argument that is not in the matches "
    "is false. R6.8 command-line values are never left pending when parse gives up: every error that Parser::parse constructs inside its token loop (unknown argument, no_equals, too many values, did-you-mean, invalid UTF-8, match_arg_error) is preceded on every path from the loop head by resolve_pending — with ignore_errors the env/default phases run after such an error and would otherwise treat the pending argument as absent (all sites do this today; the rule is the confirmed majority pattern). R6.9 Arg::_build assigns the action's implicit default / missing-value default whenever none was given, under no other condition. NOT decided: the combination at run time, globals."
    ' R6.1b (name-independent): in every parser body no EnvVariable record is reachable after a DefaultValue record (loops included; subcommand levels apart). R6.3c: Arg::env stores env::var_os(name) as reported.'
    " R6.A accessor layer (lib/accessors.py): for the is_*_set / get_* accessors this property's rules name — the bool builder sets and unsets one flag on the right edges and the predicate reads that same flag; builder scope (global/local) as in audit/setting_scope.tsv; no two predicates/builders share a flag; setting/unset_setting/global_setting/is_set forward to the right flag word, the flag word is |=bit / &=!bit / &bit!=0 with bit = 1<<discriminant, _propagate_subcommand hands g_settings to the child's settings and g_settings; plain field getters return their field."
)
TRUSTED = ["rustc MIR", "clapfacts", "lib/vset.py", "derived Ord follows declaration order"]
ASSUMPTIONS = ["Arg::env reads the environment at definition time (outside this property)"]

VS = "clap_builder::parser::matches::value_source::ValueSource"


def run(ctx):
    fx, res = ctx.fx, ctx.res
    has_env = "env" in fx.crate("clap_builder").features
    gm = fx.body("clap_builder::parser::parser::Parser::get_matches_with")
    # ---- R6.1b (name-independent) order of EFFECTS: anywhere in the parser, once a value has been recorded with source DefaultValue nothing is
    # recorded with source EnvVariable any more — also not on the next round of a loop (per-argument interleaving of env and default lets a
    # conditional default read the matches before another argument's env value is in them)
    if has_env:
        pbs = fx.bodies(r"^clap_builder::parser::parser::")
        kind = {}
        for b in pbs:
            for c in b.calls_to(r"Parser::react$"):
                vs = agg_variants(b, c.args[2]) or []
                for v in vs:
                    if v in ("EnvVariable", "DefaultValue"):
                        kind.setdefault(b.q, set()).add(v)
        changed = True
        while changed:      # close over callers inside the parser module
            changed = False
            for b in pbs:
                for c in b.calls():
                    q = c.callee_q or ""
                    if q.endswith("Parser::get_matches_with"):
                        continue        # a subcommand level: its own matcher, its own phases (checked for that body)
                    top = b
                    while top.kind == "Closure" and top.parent is not None:
                        top = top.parent
                    for qq in (b.q,):
                        if q in kind and not kind[q] <= kind.get(qq, set()):
                            kind.setdefault(qq, set()).update(kind[q]); changed = True
        def eff(b, c):
            if c.is_(r"Parser::react$"):
                return set(v for v in (agg_variants(b, c.args[2]) or []) if v in ("EnvVariable", "DefaultValue"))
            # effects inside a closure passed to the call are ordered inside that closure's own body (it is analysed as a body of its own);
            # attributing them to the call site would order the error-recovery closure of get_matches_with before the normal phases
            return set() if (c.callee_q or "").endswith("Parser::get_matches_with") else set(kind.get(c.callee_q or "", set()))
        n_e = 0
        for b in pbs:
            es = [c for c in b.calls() if "EnvVariable" in eff(b, c)]
            ds = [c for c in b.calls() if "DefaultValue" in eff(b, c)]
            n_e += len(es)
            for d in ds:
                after = b.reachable(d.target if d.target is not None else d.bb)
                late = [e for e in es if e.bb in after and e is not d]
                res.check(not late, "R6.1", "effect|env-before-defaults|" + b.q.rsplit("::", 1)[1], d.where(), "no environment value is applied after a default",
                          "%s applies an environment value (%s) after a default may already have been applied (%s), e.g. on the next round of the same loop: a conditional default is computed before another argument's environment value is in the matches" % (
                              b.q, late[0].where() if late else "", d.where()))
        res.floor("R6.1", "sites that (transitively) record an environment value", n_e, 3)
    order = ["Parser::parse$", "Parser::resolve_pending$"] + (["Parser::add_env$"] if has_env else []) + ["Parser::add_defaults$", "Validator::validate$"]
    calls = []
    for rx in order:
        # the main path: calls not on the ignore_errors recovery edge (which may be a closure of map_err or a match arm of the same function)
        cs = [c for c in gm.calls_to("clap_builder::parser::(parser|validator)::" + rx) if not has_bool(gm, c.bb, "T", r"is_ignore_errors_set\(")]
        require(fx, res, "R6.1", "phase-missing|" + rx.split("::")[-1].rstrip("$"), gm, "clap_builder::parser::(parser|validator)::" + rx, len(cs), 1, "get_matches_with no longer runs the phase %s" % rx.rstrip("$"))
        if cs:
            calls.append(cs[0])
    for a, b in zip(calls, calls[1:]):
        res.check(gm.block_dominates(a.bb, b.bb) and a.bb != b.bb, "R6.1", "order|%s<%s" % (a.callee_q.rsplit("::", 1)[1], b.callee_q.rsplit("::", 1)[1]), b.where(),
                  "%s before %s on every path" % (a.callee_q.rsplit("::", 1)[1], b.callee_q.rsplit("::", 1)[1]),
                  "%s is not always preceded by %s: a lower-priority source could be applied first" % (b.callee_q.rsplit("::", 1)[1], a.callee_q.rsplit("::", 1)[1]))
    # recovery closure
    if has_env:
        rec = [x for c in gm.calls_to(r"Result::map_err$") for x in closure_bodies(fx, c)]
        if not rec and any(has_bool(gm, c.bb, "T", r"is_ignore_errors_set\(") for c in gm.calls_to(r"Parser::add_defaults$")):
            rec = [gm]      # `match self.parse(..) { Err(err) => { if ignore_errors { env; defaults } return Err(err) } .. }`
        for cb in rec:
            e = [c for c in cb.calls_to(r"Parser::add_env$") if cb is not gm or has_bool(gm, c.bb, "T", r"is_ignore_errors_set\(")]
            d = [c for c in cb.calls_to(r"Parser::add_defaults$") if cb is not gm or has_bool(gm, c.bb, "T", r"is_ignore_errors_set\(")]
            if e and d:
                res.check(cb.block_dominates(e[0].bb, d[0].bb) and e[0].bb != d[0].bb, "R6.1", "order|recovery|add_env<add_defaults", d[0].where(),
                          "error-recovery path also applies env before defaults", "on the ignore_errors recovery path defaults are applied before env: an arg with both would get its default")
            else:
                res.violation("R6.1", "order|recovery|missing", cb.where(), "ignore_errors recovery closure no longer applies both env and defaults")

    # ---- R6.2 / R6.3
    expect_src = {"parse_long_arg": "CommandLine", "parse_short_arg": "CommandLine", "parse_opt_value": "CommandLine", "resolve_pending": "CommandLine",
                  "add_env": "EnvVariable", "add_default_value": "DefaultValue", "did_you_mean_error": "CommandLine"}
    n = 0
    for b in fx.bodies(r"^clap_builder::parser::parser::Parser::"):
        top = b
        while top.parent is not None:
            top = top.parent
        fn_ = top.q.rsplit("::", 1)[1]
        for c in b.calls_to(r"^clap_builder::parser::parser::Parser::react$", r"^clap_builder::parser::parser::Parser::start_custom_arg$"):
            if fn_ == "react":
                continue
            n += 1
            si = 2 if c.callee_q.endswith("react") else 3
            vs = agg_variants(b, c.args[si])
            want = expect_src.get(fn_)
            res.check(want is not None and vs == {want}, "R6.3", "source-const|%s|%s" % (fn_, c.callee_q.rsplit("::", 1)[1]), c.where(), "%s passes ValueSource::%s" % (fn_, sorted(vs)),
                      "%s passes ValueSource::%s, expected %s: the reported origin would be wrong" % (fn_, sorted(vs) or expr(b, c.args[si]), want))
            if want in ("EnvVariable", "DefaultValue"):
                arg_e = expr(b, c.args[3])
                gl = bool_facts(b, c.bb)
                ok = any(p == "F" and re.match(r"^contains\(matcher,", e) and (arg_e.split("#")[0] in e or "get_id(%s)" % arg_e in e) for p, e in gl)
                res.check(ok, "R6.2", "absent-only|%s|%s" % (fn_, want), c.where(), "%s value applied only when the matcher does not contain the arg" % want,
                          "%s value is applied without the `!matcher.contains(arg)` test: it could override a higher-priority source (guards %s)" % (want, gl[-3:]))
    res.floor("R6.3", "react/start_custom_arg call sites outside react", n, 7 + (1 if has_env else 0))
    rc = fx.body("clap_builder::parser::parser::Parser::react")
    src_l = rc.locals_named("source")
    for c in rc.calls_to(r"Parser::start_custom_arg$", r"Parser::push_arg_values$"):
        si = 3 if c.callee_q.endswith("start_custom_arg") else 3
        e = expr(rc, c.args[si])
        res.check(e == "source", "R6.3", "react-forwards-source|%s" % c.callee_q.rsplit("::", 1)[1], c.where(), "react forwards its `source` parameter", "react passes %s instead of its `source` parameter" % e)
    pa = fx.body("clap_builder::parser::parser::Parser::push_arg_values")
    for c in pa.calls_to(r"AnyValueParser>?::parse_ref$|ValueParser::parse_ref$"):
        res.check(expr(pa, c.args[-1]) == "source", "R6.3", "push_arg_values-forwards-source", c.where(), "value parser receives the real source", "push_arg_values passes %s as value source" % expr(pa, c.args[-1]))
    sc = fx.body("clap_builder::parser::arg_matcher::ArgMatcher::start_custom_arg")
    ss = sc.calls_to(r"MatchedArg::set_source$")
    res.check(len(ss) == 1 and expr(sc, ss[0].args[1]) == "source", "R6.3", "matcher-records-source", sc.where(), "ArgMatcher::start_custom_arg records the given source", "ArgMatcher::start_custom_arg does not record its `source` argument")

    # ---- R6.4 ordering
    adt = fx.adt("parser::matches::value_source::ValueSource")
    names = [v["name"] for v in adt["variants"]]
    res.check(names == ["DefaultValue", "EnvVariable", "CommandLine"], "R6.4", "variant-order", sp_str(adt["span"]), "declared order %s" % names,
              "ValueSource variants are declared %s: derived Ord would not rank CommandLine > EnvVariable > DefaultValue" % names)
    impls = [i for i in fx.crate("clap_builder").impls if i["self_ty"] == VS and i["trait"] and i["trait"].startswith("std::cmp::Ord")]
    der = [i for i in impls if len(i["span"]) > 5 and i["span"][5] in ("derive", "Ord")]
    res.check(bool(impls) and bool(der), "R6.4", "ord-derived", sp_str(impls[0]["span"]) if impls else "?", "Ord for ValueSource is derived", "Ord for ValueSource is hand-written or missing (order no longer follows the declaration)")
    st = fx.body("clap_builder::parser::matches::matched_arg::MatchedArg::set_source")
    import panics as _P
    mxs = [(t, c) for t in tree(st) for c in t.calls_to(r"Ord>?::max$", r"cmp::max$")]        # the max may sit in a closure (`self.source.map_or(source, |existing| existing.max(source))`)
    okm = len(mxs) == 1 and not tree_calls(st, r"Ord>?::min$", r"cmp::min$")
    if okm:
        t_, c_ = mxs[0]
        es = sorted(_P.resolved_operand(t_, expr(t_, a)) for a in c_.args)
        okm = es == sorted(["self.source#Some.0", "source"])
    res.check(okm, "R6.4", "set_source-max", st.where(), "set_source keeps max(existing, new)", "MatchedArg::set_source no longer combines sources with max")
    ie = fx.body("clap_builder::parser::matches::value_source::ValueSource::is_explicit")
    eng = vset.Engine(fx)
    for vi, nm in enumerate(names):
        r = eng.analyze(ie, {1: frozenset([("a", VS, vi, nm, ())])})
        want = vset.av_int(0 if nm == "DefaultValue" else 1)
        res.check(r.ret == want, "R6.4", "is_explicit|" + nm, ie.where(), "is_explicit(%s) = %s" % (nm, vset.fmt_av(r.ret)), "is_explicit(%s) = %s, expected %s" % (nm, vset.fmt_av(r.ret), vset.fmt_av(want)))

    # ---- R6.5 missing-value default
    ext = [c for c in rc.calls_to(r"Extend(<[^>]*>)?>?::extend$") if re.search(r"default_missing_vals", expr(rc, c.args[1]))]
    res.floor("R6.5", "default_missing_vals injection", len(ext), 1)
    vn = rc.calls_to(r"Parser::verify_num_args$")
    res.floor("R6.5", "verify_num_args call in react", len(vn), 1)
    for c in ext:
        ok1 = has_bool(rc, c.bb, "T", r"^is_empty\((deref\()?raw_vals")
        ok2 = bool(vn) and not rc.reaches(c.bb, vn[0].bb) or (bool(vn) and c.bb != vn[0].bb and vn[0].bb not in rc.reachable(c.target if c.target is not None else c.bb))
        res.check(ok1, "R6.5", "only-when-empty", c.where(), "missing-value default injected only for an occurrence without values", "default_missing_vals injected although the occurrence has values")
        res.check(ok2, "R6.5", "after-verify_num_args", c.where(), "injected after verify_num_args (never counted as command-line values)", "default_missing_vals injected before verify_num_args: they would be counted as given values")
    for c in vn:
        res.check(any(p == "T" and re.match(r"^eq\(source,|^Eq\(discr\(source", e) for p, e in bool_facts(rc, c.bb)) or has_bool(rc, c.bb, "T", r"source"), "R6.5", "verify-only-cmdline", c.where(),
                  "value counts verified only for command-line occurrences", "verify_num_args applied to non-command-line sources")

    # ---- R6.6 defaults are not presence (the validator's presence tests are explicit-only)
    explicit_presence_rule(fx, res, "R6.6")
    psc = fx.body("clap_builder::parser::parser::Parser::start_custom_arg")
    grp = psc.calls_to(r"ArgMatcher::start_custom_group$")
    res.floor("R6.6", "group recording in start_custom_arg", len(grp), 1)
    for c in grp:
        from rules.c03 import explicit_guards
        res.check(explicit_guards(psc, c) == ["T:is_explicit(source)"], "R6.6", "groups-only-explicit", c.where(), "groups recorded only for explicit sources", "a default-sourced value marks its groups as present")
    ro = psc.calls_to(r"Parser::remove_overrides$")
    for c in ro:
        res.check(any(p == "T" and re.search(r"source", e) for p, e in bool_facts(psc, c.bb)), "R6.6", "overrides-only-cmdline", c.where(), "overrides removed only for command-line occurrences",
                  "remove_overrides runs for non-command-line sources")
    ce = fx.body("clap_builder::parser::matches::matched_arg::MatchedArg::check_explicit")
    # first branch: source.map(!is_explicit).unwrap_or(false) -> return false
    first = ce.calls()[0] if ce.calls() else None
    okf = False
    cl = [cb for c in ce.calls_to(r"Option::map$") for cb in closure_bodies(fx, c)]
    if cl and any(cb.calls_to(r"ValueSource::is_explicit$") for cb in cl):
        uw = ce.calls_to(r"Option::unwrap_or$")
        if uw:
            br = ce.call_branch(uw[0])
            if br:
                blocks = ce.reachable(br[1], without_blocks=(br[2],))
                consts = [s for i, j, s in ce.stmts() if i in blocks and s["k"] == "assign" and s["place"] == 0 and s["rv"]["k"] == "use" and op_int(s["rv"]["op"]) == 0]
                others = [c for c in ce.calls() if c.bb in blocks and c.bb != uw[0].bb]
                okf = bool(consts) and not others and all(ce.block_dominates(uw[0].bb, c.bb) for c in ce.calls_to(r"raw_vals_flatten$|Iterator::any$"))
    res.check(okf, "R6.6", "check_explicit-first", ce.where(), "check_explicit returns false for non-explicit sources before evaluating the predicate",
              "MatchedArg::check_explicit no longer rejects default-sourced values first")


    # ---- R6.6b (shared with C07 R7.4) only command-line occurrences remove the records of overridden arguments
    from rules.c07 import commandline_only
    for c in psc.calls_to(r"Parser::remove_overrides$"):
        res.check(commandline_only(psc, c), "R6.6", "overrides-only-commandline", c.where(), "env/default values never remove another argument's command-line values",
                  "an occurrence from the environment or a default removes the records of the arguments it overrides (guard %s): command-line values are replaced by defaults" % guard_strs(psc, c.bb))
    # ---- R6.7 exactly one default
    ad = fx.body("clap_builder::parser::parser::Parser::add_default_value")
    rs = ad.calls_to(r"Parser::react$")
    A = [c for c in rs if any(re.match(r"^V1:next\(into_iter\(iter\(arg\.default_vals_ifs\)\)\)#Some\.0\.2$", g) for g in guard_strs(ad, c.bb))]
    B = [c for c in rs if re.search(r"arg\.default_vals\)", expr(ad, c.args[4]))]
    res.floor("R6.7", "conditional-default react in add_default_value", len(A), 1)
    res.floor("R6.7", "plain-default react in add_default_value", len(B), 1)
    heads = [c for c in ad.calls_to(r"Iterator>?::next$") if re.search(r"default_vals_ifs", expr(ad, c.args[0]))]
    res.floor("R6.7", "loop over default_vals_ifs", len(heads), 1)
    # the condition's truth value: the local `add`, or (single-definition form) `matcher.get(id).is_some_and(|a| ..)`, false when absent by definition
    ADD = "T:add"
    if A and not any(g == "T:add" for g in guard_strs(ad, A[0].bb)):
        alt = [g for g in guard_strs(ad, A[0].bb) if re.match(r"^T:is_some_and\(get\(matcher,", g)]
        if alt:
            ADD = alt[0]
    if A and B and heads:
        S = [i for i in ad.reachable(0) if ADD in guard_strs(ad, i)]
        res.floor("R6.7", "blocks on the `add` edge", len(S), 1)
        leak = [i for i in S if B[0].bb in ad.reachable(i) or heads[0].bb in ad.reachable(i)]
        res.check(not leak, "R6.7", "first-match-wins", A[0].where(), "after a matching condition neither further conditions nor the plain default are applied",
                  "after a matching conditional default the %s is still reachable: an argument can receive more than one default" % ("plain default" if any(B[0].bb in ad.reachable(i) for i in S) else "next condition"))
        res.check(all(ADD in guard_strs(ad, c.bb) for c in A), "R6.7", "conditional-only-on-match", A[0].where(), "conditional default applied only when its condition holds", "conditional default applied without its condition")
    adds = ad.locals_named("add")
    absent = [i for i, j, s_ in ad.stmts() if s_["k"] == "assign" and s_["place"] in adds and any(re.match(r"^(!V1|V0):get\(matcher,", g) for g in guard_strs(ad, i))]
    res.check(ADD.startswith("T:is_some_and(") or bool(absent) and all(op_int(s_["rv"]["op"]) == 0 for i, j, s_ in ad.stmts() if i in absent and s_["k"] == "assign" and s_["place"] in adds and s_["rv"]["k"] == "use"),
              "R6.7", "condition-false-when-absent", ad.where(), "a condition on an argument without matches is false", "a conditional default fires although the argument it depends on is not in the matches")


    # ---- R6.3c what Arg::env stores is the variable's value as the OS reports it (set-but-empty is a value)
    if has_env:
        ev = fx.body("clap_builder::builder::arg::Arg::env")
        ws = [expr(ev, s_["rv"]["op"]) for i, s_ in writes_field(ev, "env") if s_["rv"]["k"] == "use"]
        somes = [w for w in ws if w.startswith("Option::Some(")]
        res.floor("R6.3", "Arg::env stores Some((name, value))", len(somes), 1)
        for w in somes:
            m = re.fullmatch(r"Option::Some\(tuple\((.*),var_os\((.*)\)\)\)", w)
            res.check(m is not None and m.group(1) == m.group(2), "R6.3", "env-value-as-reported", ev.where(), "env = Some((name, env::var_os(name)))",
                      "Arg::env stores %s: the variable's value is filtered or rewritten before it is recorded (a set variable can count as unset, or a different text is parsed)" % w[:140])

    # ---- R6.3b the environment value reaches react unchanged, for every argument
    if has_env:
        ae = fx.body("clap_builder::parser::parser::Parser::add_env")
        rc_ = ae.calls_to(r"Parser::react$")
        for c in rc_:
            item = expr(ae, c.args[3])
            res.check(item == "next(into_iter(get_arguments(self.cmd)))#Some.0", "R6.3", "env-every-argument", c.where(), "add_env visits every argument of the command", "add_env iterates %s" % item[:80])
            tos = [t for t in ae.calls_to(r"ToOwned>?::to_owned$|to_os_string$|Clone>?::clone$") if ae.block_dominates(t.bb, c.bb)]
            okv = len(tos) == 1 and expr(ae, tos[0].args[0]) == item + ".env#Some.0.1#Some.0"
            others = [x for x in ae.calls() if not sp_macro(x.sp) and x.callee_q and x.callee_q.startswith("clap_builder::") and not x.is_(r"Command::get_arguments$", r"ArgMatcher::contains$", r"Parser::react$")]
            res.check(okv and not others, "R6.3", "env-value-verbatim", c.where(), "react receives vec![env value of that argument]",
                      "the environment value is transformed or taken from elsewhere before react (%s; other calls %s)" % ([expr(ae, t.args[0])[:60] for t in tos], [x.callee_q.rsplit("::", 1)[1] for x in others]))


    # ---- R6.8 pending command-line values are flushed before an in-loop error leaves parse
    pp = fx.body("clap_builder::parser::parser::Parser::parse")
    heads = pp.calls_to(r"clap_lex::RawArgs::next$")
    rps = [c.bb for c in pp.calls_to(r"Parser::resolve_pending$")]
    res.floor("R6.8", "loop head of Parser::parse", len(heads), 1)
    if heads:
        h = heads[0]
        loop = pp.reachable(h.target) if h.target is not None else set()
        nerr = 0
        for i, j, s_ in pp.stmts():
            if not (s_["k"] == "assign" and s_["place"] == 0 and s_["rv"]["k"] == "agg" and s_["rv"].get("variant") == "Err"):
                continue
            e = expr(pp, s_["rv"]["ops"][0])
            m = re.match(r"^(\w+)\(", e)
            if not m or e.endswith("#Err.0") or i not in loop or not pp.reaches(i, h.bb) and not re.match(r"^(no_equals|did_you_mean_error|too_many_values|unknown_argument|invalid_utf8|match_arg_error)$", m.group(1)):
                continue
            if not re.match(r"^(no_equals|did_you_mean_error|too_many_values|unknown_argument|invalid_utf8|match_arg_error|wrong_number_of_values|too_few_values|invalid_value)$", m.group(1)):
                continue
            nerr += 1
            avoid = pp.must_pass(rps, frm=h.target, to=[i])
            if avoid:
                # the flush may have moved into the error-building helper: accept it when that helper flushes on every path
                for hb in fx.bodies(r"^clap_builder::parser::parser::Parser::%s$" % m.group(1)):
                    hr = [c.bb for c in hb.calls_to(r"Parser::resolve_pending$")]
                    if hr and not hb.must_pass(hr):
                        avoid = []
            res.check(not avoid, "R6.8", "pending-flushed-before-error|%s" % m.group(1), "%s bb%d" % (pp.where(), i), "resolve_pending on every path from the loop head to this error",
                      "Parser::parse returns the %s error with values still pending: under ignore_errors the argument that was being filled counts as absent for the env/default phases and its command-line values are lost" % m.group(1))
        res.floor("R6.8", "errors constructed inside the parse loop", nerr, 7)


    # ---- R6.9 implicit defaults of flag actions do not depend on anything but the action (in particular not on `required`)
    ab = fx.body("clap_builder::builder::arg::Arg::_build")
    for fld, src in (("default_vals", "default_value"), ("default_missing_vals", "default_missing_value")):
        ws = writes_field(ab, fld)
        res.floor("R6.9", "implicit %s assignment in Arg::_build" % fld, len(ws), 1)
        for i, s_ in ws:
            gl = [g for g in guard_strs(ab, i) if re.match(r"^[TF]:", g)]
            res.check(gl == ["T:is_empty(self.%s)" % fld] and any(re.match(r"^V1:%s\(self\.action#Some\.0\)$" % src, g) for g in guard_strs(ab, i)), "R6.9", "implicit-default-unconditional|" + fld, "%s bb%d" % (ab.where(), i),
                      "implicit %s assigned whenever the action has one and none was given" % fld, "Arg::_build assigns the action's implicit %s only under %s: e.g. a required flag whose requirement is waived ends up without its default (value_source None instead of DefaultValue)" % (fld, gl))
