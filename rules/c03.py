"""C03 — a successful parse satisfies every declared relation between arguments."""
import re
from rulekit import *
import vset

EXPLANATION = (
    "R3.1 presence = explicit: in parser/validator.rs every iterator obtained from ArgMatcher::args()/arg_ids() flows into an "
    "Iterator::filter whose closure calls MatchedArg::check_explicit (ArgMatcher::check_explicit for ids) with "
    "ArgPredicate::IsPresent; no function of Validator/Conflicts tests presence with ArgMatcher::{contains,get} or "
    "ArgMatches::contains_id; single-id presence tests go through ArgMatcher::check_explicit. "
    "R3.2 MatchedArg::check_explicit: non-explicit sources return false before the predicate is evaluated, and the Equals "
    "predicate is evaluated over all values of all occurrences (raw_vals_flatten().any). "
    "R3.3 phases: every path of Validator::validate to Ok(()) passes validate_conflicts, and passes validate_required unless "
    "on the (subcommand_negates_reqs && has_subcmd) edge; validate_conflicts passes validate_exclusive first. "
    "R3.4 both directions: Conflicts::gather_conflicts tests (conflicts-of-arg contains other) and (conflicts-of-other "
    "contains arg); gather_arg_direct_conflicts reads Arg::blacklist, Arg::overrides, ArgGroup::conflicts unconditionally "
    "and ArgGroup::args only on the !group.multiple edge; gather_group_direct_conflicts returns the group's conflicts. "
    "R3.5 exemptions only as documented: every missing_required.push in validate_required is control-dependent on "
    "!is_exclusive_present (and for graph requirements on !is_missing_required_ok), nothing else suppresses it; "
    "is_exclusive_present is computed over explicitly present args. R3.5b validate_exclusive counts ALL explicitly present arguments (its filter consults nothing but check_explicit and "
    "Command::find) and returns early exactly when that count is <= 1. R3.8 (shared with C07 R7.4) presence records are only "
    "removed for overridden arguments (or replaced by the argument's own new occurrence). R3.6 conditional requirements: the field name states the "
    "quantifier (Arg::r_ifs / r_unless = any, r_ifs_all / r_unless_all = all); in validate_required every `required = true` is "
    "guarded by the matching test (check_explicit(other, Equals(val)) inside the r_ifs loop; all(r_ifs_all) && !is_empty; "
    "fails_arg_required_unless), the candidates are the arguments NOT explicitly present, and fails_arg_required_unless returns "
    "false exactly on (all of r_unless_all present) or (any of r_unless present), presence = check_explicit(IsPresent). R3.7 `requires` propagation: gather_requires feeds every explicitly present arg through "
    "unroll_arg_requires with a relevance closure `matched.check_explicit(pred).then(req)` (un-negated) and inserts every result, and "
    "every `requires` of a present group, into the required graph unconditionally; unroll_arg_requires collects every relevant "
    "requirement of every visited arg and continues through requirements that themselves require something (transitive). R3.9 relation setters of Arg/ArgGroup only ever add to the relation vectors; start_custom_arg records an argument's groups exactly on the is_explicit(source) edge. NOT decided: correctness of the required graph and "
    "group unrolling on arbitrary graphs."
    ' R3.4 (added): the two direction tests of gather_conflicts run for every other present id (only the pair (arg, arg) is skipped). R3.9 (added): nobody but the declared setters of Arg/ArgGroup mutates a relation vector.'
    ' R3.4 (form-independent): ArgGroup::conflicts is read unconditionally — neither under an `if !multiple` nor behind a `.filter(!multiple)`.'
    " R3.A accessor layer (lib/accessors.py): for the is_*_set / get_* accessors this property's rules name — the bool builder sets and unsets one flag on the right edges and the predicate reads that same flag; builder scope (global/local) as in audit/setting_scope.tsv; no two predicates/builders share a flag; setting/unset_setting/global_setting/is_set forward to the right flag word, the flag word is |=bit / &=!bit / &bit!=0 with bit = 1<<discriminant, _propagate_subcommand hands g_settings to the child's settings and g_settings; plain field getters return their field."
)
TRUSTED = ["rustc MIR", "clapfacts"]
ASSUMPTIONS = ["FlatMap iteration yields every entry once"]

V = r"^clap_builder::parser::validator::"


def explicit_guards(psc, c):
    """Boolean guards of call c, with `source != ValueSource::DefaultValue` normalised to `is_explicit(source)`."""
    gl = [g for g in guard_strs(psc, c.bb) if re.match(r"^[TF]:", g)]
    if len(gl) == 1 and re.match(r"^[TF]:(eq|ne)\(", gl[0]):
        for e_ in psc.calls_to(r"PartialEq(<[^>]*>)?>?::(eq|ne)$"):
            other = e_.args[1] if expr(psc, e_.args[0]) == "source" else e_.args[0]
            br = psc.call_branch(e_)
            neq = e_.callee_q.endswith("::ne")
            if br and "DefaultValue" in (agg_variants(psc, other) or []) and psc.edge_dominates((br[0], br[1] if neq else br[2]), c.bb):
                gl = ["T:is_explicit(source)"]
    return gl


def chain_filters(fx, body, call):
    """Closure bodies of Iterator::filter calls that the iterator produced by `call` flows through."""
    t = taint_forward(body, [pl_local(call.dest)], call_transfer=lambda c, ta: 0 in ta)
    out = []
    users = []
    for u in body.calls():
        if u is call or not u.args or op_local(u.args[0]) not in t:
            continue
        users.append(u)
        if u.is_(r"Iterator::filter$"):
            out.extend(closure_bodies(fx, u))
    return out, users


def explicit_presence_rule(fx, res, R):
    """Presence for relations = explicit source only (shared by C03 R3.1 and C06 R6.6)."""
    vb = fx.bodies(V)
    # ---- R3.1
    n = 0
    for b in vb:
        for c in b.calls_to(r"ArgMatcher::(args|arg_ids)$"):
            n += 1
            fcl, users = chain_filters(fx, b, c)
            ok = False
            for cb in fcl:
                for cc in tree_calls(cb, r"MatchedArg::check_explicit$", r"ArgMatcher::check_explicit$"):
                    if "IsPresent" in agg_variants(cc.body, cc.args[-1]) or re.search(r"IsPresent", expr(cc.body, cc.args[-1])):
                        ok = True
            if not ok:
                # loop form: for (id, matched) in matcher.args() { if matched.check_explicit(IsPresent) { .. } } — every other use of the
                # element sits on the true edge of that test
                elem = "next(into_iter(%s))#Some.0" % expr(b, c.dest)
                tests = [cc for cc in b.calls_to(r"MatchedArg::check_explicit$", r"ArgMatcher::check_explicit$") if elem in expr(b, cc.args[0]) + expr(b, cc.args[1] if len(cc.args) > 1 else cc.args[0])
                         and ("IsPresent" in (agg_variants(b, cc.args[-1]) or []) or re.search(r"IsPresent", expr(b, cc.args[-1])))]
                if tests:
                    tn = ["T:" + expr(b, t_.dest) for t_ in tests]
                    uses = [y for y in b.calls() if y not in tests and y.bb in b.reachable(0) and any(elem in expr(b, a) for a in y.args) and not y.is_(r"Iterator>?::next$")]
                    ok = bool(uses) and all(any(t in guard_strs(b, y.bb) for t in tn) for y in uses)
            res.check(ok, R, "explicit-filter|%s|%s" % (b.q, c.callee_q.rsplit("::", 1)[1]), c.where(), "matcher ids filtered by check_explicit(IsPresent)",
                      "%s iterates matcher.%s() without the check_explicit(IsPresent) filter: values that came from defaults count as present for conflicts/requirements" % (
                          b.q.rsplit("::", 1)[1], c.callee_q.rsplit("::", 1)[1]))
    res.floor(R, "ArgMatcher::args()/arg_ids() iterations in the validator", n, 9)
    for b in vb:
        for c in b.calls_to(r"ArgMatcher::(contains|get|get_mut)$", r"ArgMatches::(contains_id|try_contains_id)$", r"FlatMap<[^>]*>::contains_key$"):
            res.violation(R, "raw-presence|%s" % b.q, c.where(), "%s tests presence with %s (defaults would count); use check_explicit" % (b.q.rsplit("::", 1)[1], c.callee_q.rsplit("::", 1)[1]))
    # single-id tests
    m = 0
    for b in vb:
        for c in b.calls_to(r"ArgMatcher::check_explicit$"):
            m += 1
    res.floor(R, "ArgMatcher::check_explicit uses in the validator", m, 6)
    res.ok(R, "single-id-tests", "parser/validator.rs", "%d single-id presence/value tests go through ArgMatcher::check_explicit" % m)
    amce = fx.body("clap_builder::parser::arg_matcher::ArgMatcher::check_explicit")
    okd = any(cb.calls_to(r"MatchedArg::check_explicit$") for c in amce.calls_to(r"Option::map$") for cb in closure_bodies(fx, c)) and bool(amce.calls_to(r"Option::unwrap_or_default$|Option::unwrap_or$"))
    res.check(okd, R, "matcher-check_explicit-delegates", amce.where(), "ArgMatcher::check_explicit = get(id).map(check_explicit).unwrap_or_default()", "ArgMatcher::check_explicit no longer delegates to MatchedArg::check_explicit (absent => false)")



def run(ctx):
    fx, res = ctx.fx, ctx.res
    vb = fx.bodies(V)
    res.floor("R3.1", "validator bodies", len(vb), 30)
    explicit_presence_rule(fx, res, "R3.1")

    # ---- R3.2
    ce = fx.body("clap_builder::parser::matches::matched_arg::MatchedArg::check_explicit")
    anyc = ce.calls_to(r"Iterator::any$")
    # any(..), find(..).is_some() or a loop with `return true` on a match: all existential over every value
    oka = len(exists_forms(fx, ce, r"^raw_vals_flatten\(self\)$")) == 1 and len(anyc) <= 1
    res.check(oka, "R3.2", "equals-over-all-values", ce.where(), "Equals predicate = raw_vals_flatten().any(..): every value of every occurrence",
              "check_explicit(Equals) no longer looks at all values of all occurrences: %s" % ([expr(ce, c.args[0]) for c in anyc]))
    rf = fx.body("clap_builder::parser::matches::matched_arg::MatchedArg::raw_vals_flatten")
    res.check(bool(rf.calls_to(r"Iterator::flatten$")) and reads_field(rf, "raw_vals"), "R3.2", "raw_vals_flatten", rf.where(), "raw_vals_flatten = raw_vals.iter().flatten()", "raw_vals_flatten changed")
    uw = ce.calls_to(r"Option::unwrap_or$")
    okf = False
    if uw:
        br = ce.call_branch(uw[0])
        if br:
            blocks = ce.reachable(br[1], without_blocks=(br[2],))
            consts = [s for i, j, s in ce.stmts() if i in blocks and s["k"] == "assign" and s["place"] == 0 and s["rv"]["k"] == "use" and op_int(s["rv"]["op"]) == 0]
            okf = bool(consts) and all(ce.block_dominates(uw[0].bb, c.bb) for c in anyc)
    res.check(okf, "R3.2", "non-explicit-first", ce.where(), "non-explicit source => false before the predicate", "check_explicit evaluates the predicate for default-sourced values")

    # ---- R3.3 phases
    vd = fx.body("clap_builder::parser::validator::Validator::validate")
    ok_rets = []
    for i, j, s in vd.stmts():
        if s["k"] == "assign" and s["place"] == 0 and s["rv"]["k"] == "agg" and s["rv"].get("variant") == "Ok":
            ok_rets.append(i)
    res.floor("R3.3", "Ok(()) construction in validate", len(ok_rets), 1)
    vc = vd.calls_to(r"Validator::validate_conflicts$")
    vr = vd.calls_to(r"Validator::validate_required$")
    require(fx, res, "R3.3", "conflicts-on-every-ok-path", vd, r"Validator::validate_conflicts$", len(vc), 1, "validate no longer runs validate_conflicts")
    require(fx, res, "R3.3", "required-on-every-ok-path", vd, r"Validator::validate_required$", len(vr), 1, "validate no longer runs validate_required")
    if vc and ok_rets:
        miss = vd.must_pass([c.bb for c in vc], to=ok_rets)
        res.check(not miss, "R3.3", "conflicts-on-every-ok-path", vd.where(), "every Ok(()) path passes validate_conflicts", "validate can return Ok(()) without validate_conflicts")
    if vr and ok_rets:
        # paths avoiding validate_required must take the (negates_reqs true, has_subcmd true) edges
        neg = vd.calls_to(r"Command::is_subcommand_negates_reqs_set$")
        res.floor("R3.3", "is_subcommand_negates_reqs_set test", len(neg), 1)
        okp = False
        if neg:
            br = vd.call_branch(neg[0])
            if br:
                # without the true edge of the setting, validate_required is unavoidable
                sw, tt, ff = br
                seen = {0}
                work = [0]
                avoid = set(c.bb for c in vr)
                while work:
                    x = work.pop()
                    for y in vd.succ(x):
                        if (x, y) == (sw, tt) or y in seen or y in avoid:
                            continue
                        seen.add(y)
                        work.append(y)
                okp = not any(r in seen for r in ok_rets)
                # and on the true edge, has_subcmd must also be tested before skipping
                hs = [p for p, e, _ in guards(vd, ok_rets[0])]
        res.check(okp, "R3.3", "required-unless-negated", vd.where(), "validate_required skipped only when subcommand_negates_reqs is set",
                  "validate can return Ok(()) without validate_required although subcommand_negates_reqs is not set")
        # the skip also needs has_subcmd: on the path (setting true) the required check is skipped only if has_subcmd
        hsl = vd.locals_named("has_subcmd")
        oks = False
        for c in vr:
            # validate_required must be reachable from the setting's true edge (i.e. has_subcmd false still validates)
            if neg and vd.call_branch(neg[0]) and c.bb in vd.reachable(vd.call_branch(neg[0])[1]):
                oks = True
        res.check(oks and bool(hsl), "R3.3", "negation-needs-subcommand", vd.where(), "requirements are negated only when a subcommand is actually present",
                  "subcommand_negates_reqs skips requirement validation even without a subcommand")
    vcf = fx.body("clap_builder::parser::validator::Validator::validate_conflicts")
    ex = vcf.calls_to(r"Validator::validate_exclusive$")
    res.check(bool(ex) and all(vcf.block_dominates(ex[0].bb, c.bb) for c in vcf.calls_to(r"Conflicts::gather_conflicts$", r"Validator::build_conflict_err$")), "R3.3", "exclusive-first", vcf.where(),
              "validate_exclusive runs before pairwise conflicts", "validate_conflicts no longer runs validate_exclusive first")
    for fn_ in ("build_conflict_err",):
        cs = vcf.calls_to(r"Validator::%s$" % fn_)
        res.check(bool(cs), "R3.3", "conflict-error-raised", vcf.where(), "conflicts are turned into errors", "validate_conflicts no longer raises conflict errors")

    # ---- R3.4 both directions
    gc = fx.body("clap_builder::parser::validator::Conflicts::gather_conflicts")
    cont = gc.calls_to(r"\[T\]::contains$", r"Vec<[^>]*>::contains$", r"::contains$")
    pairs = set()
    for c in cont:
        h, nd = expr(gc, c.args[0]), expr(gc, c.args[1])
        pairs.add(("self-conflicts" if re.search(r"get_direct_conflicts\(self,arg_id\)|gather_direct_conflicts\(cmd,arg_id\)|arg_id_conflicts", h) else "other-conflicts" if re.search(r"next\(|#Some\.0\.1|other", h) else "?:" + h[:30],
                   "other" if re.search(r"next\(|#Some\.0\.0|other", nd) else "arg" if nd == "arg_id" else "?:" + nd[:30]))
    res.check(("self-conflicts", "other") in pairs and ("other-conflicts", "arg") in pairs, "R3.4", "both-directions", gc.where(), "gather_conflicts tests both directions: %s" % sorted(pairs),
              "gather_conflicts no longer tests both (arg conflicts with other) and (other conflicts with arg): %s" % sorted(pairs))
    # the two direction tests run for EVERY other present id: the only pair skipped is (arg, arg) itself
    for c in cont:
        gl = [g for g in guard_strs(gc, c.bb) if not re.match(r"^V1:next\(", g)]
        extra = [g for g in gl if not re.fullmatch(r"(F:eq|T:ne)\((arg_id,next\(.*\)#Some\.0\.0|next\(.*\)#Some\.0\.0,arg_id)\)|F:contains\(.*\)", g)]
        res.check(not extra, "R3.4", "direction-tests-for-every-other-id", c.where(), "conflict tests skipped only for the id itself",
                  "gather_conflicts skips its conflict test for some present ids (extra condition %s): a declared conflict between an argument and %s is never evaluated" % (extra[:2], "those ids"))
    ga = fx.body("clap_builder::parser::validator::gather_arg_direct_conflicts")
    for fld in ("blacklist", "overrides"):
        res.check(reads_field(ga, fld), "R3.4", "reads|Arg::" + fld, ga.where(), "direct conflicts include Arg::%s" % fld, "gather_arg_direct_conflicts no longer reads Arg::%s" % fld)
    # group.conflicts unconditional, group.args under !multiple — wherever the reads sit (loop body with an `if`, or a closure behind a `.filter(..)`)
    exts = ga.calls_to(r"Extend(<[^>]*>)?>?::extend$")
    greads = [(t, i_) for t in tree(ga) for (i_, j_, s_) in t.stmts() if s_["k"] == "assign" and any(isinstance(p_, list) and any(str(el).startswith(".conflicts@") for el in p_[1:]) for p_ in ([s_["rv"].get("place")] + [op_place(o) for o in rv_operands(s_["rv"]) if isinstance(o, dict) and ("cp" in o or "mv" in o)]) if p_ is not None)]
    greads += [(t, c.bb) for t in tree(ga) for c in t.calls() if any(re.search(r"\.conflicts\)?$", expr(t, a)) for a in c.args)]
    res.check(bool(greads), "R3.4", "group-conflicts-read", ga.where(), "direct conflicts include ArgGroup::conflicts of the arg's groups", "gather_arg_direct_conflicts no longer reads ArgGroup::conflicts")
    for t, bb_ in greads[:4]:
        conds = enclosing_conditions(fx, t, bb_)
        bad = [g for g in conds if re.search(r"\.multiple", g)]
        res.check(not bad, "R3.4", "group-conflicts-unconditional", "%s bb%d" % (t.where(), bb_), "group-level conflicts apply to members of every group",
                  "a group's conflicts are only inherited by members of non-multiple groups (condition %s)" % bad[:2])
    pushes = [c for c in ga.calls_to(r"Vec::push$") if re.search(r"\.args|member", expr(ga, c.args[1]))]
    # iterator form of the same step: conf.extend(group.args.iter().filter(other member).cloned())
    pushes += [c for c in exts if re.search(r"\.args\b", expr(ga, c.args[1])) and not re.search(r"\.conflicts", expr(ga, c.args[1]))]
    res.floor("R3.4", "member exclusion pushes", len(pushes), 1)
    for c in pushes:
        res.check(any(re.match(r"^F:.*\.multiple$", g) for g in guard_strs(ga, c.bb)), "R3.4", "members-exclusive-unless-multiple", c.where(), "members of a non-multiple group exclude each other",
                  "group members are (not) made mutually exclusive under the wrong condition: %s" % guard_strs(ga, c.bb))
    gg = fx.body("clap_builder::parser::validator::gather_group_direct_conflicts")
    res.check(reads_field(gg, "conflicts"), "R3.4", "reads|ArgGroup::conflicts", gg.where(), "group conflicts read", "gather_group_direct_conflicts no longer reads ArgGroup::conflicts")
    wa = fx.body("clap_builder::parser::validator::Conflicts::with_args")
    res.check(any(cb.calls_to(r"validator::gather_direct_conflicts$") for c in wa.calls_to(r"Iterator::map$") for cb in closure_bodies(fx, c)) or bool(wa.calls_to(r"validator::gather_direct_conflicts$")), "R3.4", "potential-from-present", wa.where(),
              "conflict table built from gather_direct_conflicts of every present id", "Conflicts::with_args no longer gathers direct conflicts of present ids")

    # ---- R3.5 exemptions
    vq = fx.body("clap_builder::parser::validator::Validator::validate_required")
    pushes = [c for c in vq.calls_to(r"Vec::push$") if re.match(r"^(deref_mut\()?missing_required|^new\(\)", expr(vq, c.args[0]))]
    # (a push loop may be written as missing_required.extend(iter.filter(..).map(..)): counted, the display-only completion is the usual one)
    ext_mr = [c for c in vq.calls_to(r"Extend(<[^>]*>)?>?::extend$") if re.match(r"^(deref_mut\()?missing_required|^new\(\)", expr(vq, c.args[0]))]
    for c in ext_mr:
        e_ = expr(vq, c.args[1])
        if re.search(r"get_positionals\(", e_):
            res.ok("R3.5", "push|display-only", c.where(), "display-only completion of preceding positionals (extend form)")
        else:
            res.violation("R3.5", "push|unclassified|extend", c.where(), "missing_required.extend(%s): requirements added in bulk under unrecognised conditions" % e_[:80])
    res.floor("R3.5", "missing_required.push sites", len(pushes) + len(ext_mr), 4)
    for k, c in enumerate(pushes):
        gl = bool_facts(vq, c.bb)
        val = expr(vq, c.args[1])
        kind = "group" if "group" in val or "find_group" in val else "positional-display" if re.search(r"get_positionals", val) else "arg"
        excl = any(p == "F" and (e == "is_exclusive_present" or re.match(r"^any\(filter\(args\(matcher\)", e)) for p, e in gl)
        mro = any(p == "F" and re.match(r"^is_missing_required_ok\(", e) for p, e in gl)
        cond = any(re.search(r"required$|^required", e) and p == "T" for p, e in gl)
        if kind == "arg" and mro:
            res.check(excl, "R3.5", "push|graph-arg", c.where(), "graph requirement reported unless exclusive present / conflict exemption", "graph requirement suppressed/raised under other conditions: %s" % gl[-4:])
        elif kind == "arg" and cond:
            res.check(excl, "R3.5", "push|conditional-arg", c.where(), "conditional requirement reported unless an exclusive arg is present", "conditional requirement not tied to !is_exclusive_present: %s" % gl[-4:])
        elif kind == "group":
            okg = any(p == "F" and re.match(r"^any\(iter\(", e) for p, e in gl)
            res.check(okg, "R3.5", "push|group", c.where(), "required group reported when no member is explicitly present", "required-group check changed: %s" % gl[-4:])
        elif kind == "positional-display":
            res.ok("R3.5", "push|display-only", c.where(), "display-only completion of preceding positionals")
        else:
            res.violation("R3.5", "push|unclassified|%d" % k, c.where(), "missing_required.push under unrecognised conditions %s (value %s)" % (gl[-4:], val[:60]))
    # is_exclusive_present over explicit args: covered by R3.1 for its args() iterator; here: it tests is_exclusive_set
    iep = [cb for c in vq.calls_to(r"Iterator::any$") for cb in closure_bodies(fx, c) if tree_calls(cb, r"Arg::is_exclusive_set$")]
    res.check(bool(iep), "R3.5", "is_exclusive_present", vq.where(), "is_exclusive_present = any explicitly present arg is exclusive", "is_exclusive_present no longer derived from Arg::is_exclusive_set")
    mo = fx.body("clap_builder::parser::validator::Validator::is_missing_required_ok")
    gcs = tree_calls(mo, r"Conflicts::gather_conflicts$")     # the group loop may be a closure (`.any(|group| ..)`)
    res.check(len(gcs) >= 2 and not tree_calls(mo, r"ArgMatcher::"), "R3.5", "is_missing_required_ok", mo.where(), "exemption = a present arg conflicts with the arg or one of its groups", "is_missing_required_ok consults something other than the conflicts of explicitly present args")
    # validate_exclusive: counts and candidates over explicit args (R3.1) and raises on exclusive && count > 1
    ve = fx.body("clap_builder::parser::validator::Validator::validate_exclusive")
    okx = bool(tree_calls(ve, r"Arg::is_exclusive_set$")) and bool(ve.calls_to(r"error::Error::argument_conflict$") or tree_calls(ve, r"error::Error::argument_conflict$"))
    res.check(okx, "R3.5", "validate_exclusive", ve.where(), "exclusive arg with other explicit args => ArgumentConflict", "validate_exclusive no longer raises for an exclusive arg among others")


    # ---- R3.6 conditional requirements: quantifier <-> field agreement and polarity
    WANT = {"r_ifs": "any", "r_ifs_all": "all", "r_unless": "any", "r_unless_all": "all"}
    fu = fx.body("clap_builder::parser::validator::Validator::fails_arg_required_unless")
    nq = 0
    for b in (vq, fu):
        for c in b.calls_to(r"Iterator>?::(all|any)$"):
            m = re.search(r"\.(r_ifs_all|r_ifs|r_unless_all|r_unless)\)?$", expr(b, c.args[0]))
            if not m:
                continue
            nq += 1
            nm = c.callee_q.rsplit("::", 1)[1]
            cbs = closure_bodies(fx, c)
            pred = "Equals" if m.group(1).startswith("r_ifs") else "IsPresent"
            okp = any(pred in agg_variants(cb2, cc.args[2]) for cb in cbs for cb2 in tree(cb) for cc in cb2.calls_to(r"ArgMatcher::check_explicit$"))
            neg = any(expr(cb, 0).startswith("Not(") for cb in cbs)
            res.check(nm == WANT[m.group(1)] and okp and not neg, "R3.6", "quantifier|%s|%s" % (b.q.rsplit("::", 1)[1], m.group(1)), c.where(),
                      "%s over Arg::%s with check_explicit(%s)" % (nm, m.group(1), pred),
                      "Arg::%s is evaluated with `%s`%s%s (its documented meaning is %s of the listed conditions, each tested by check_explicit(.., %s))" % (
                          m.group(1), nm, "" if okp else " without check_explicit(%s)" % pred, " over a negated test" if neg else "", WANT[m.group(1)], pred))
    res.floor("R3.6", "quantified tests over r_ifs_all / r_unless / r_unless_all", nq, 3)
    reqs = vq.locals_named("required")
    res.floor("R3.6", "`required` local in validate_required", len(reqs), 1)
    defs = [d for l in reqs for d in vq.def_sites(l)]
    # within one candidate, `required` starts from its first definition and is afterwards only ever SET (never recomputed): the
    # three sources (any of r_ifs, all of r_ifs_all, fails_arg_required_unless) are OR-ed
    first = [d for d in defs if all(vq.block_dominates(d[0], e[0]) for e in defs)]
    later = [d for d in defs if d not in first]
    covered = set()
    for d in first:
        rv = d[3]
        if isinstance(rv, dict) and rv["k"] == "use" and op_int(rv["op"]) == 0:
            continue
        e = expr(vq, {"cp": reqs[0]}) if not isinstance(rv, dict) else ""
        if (not isinstance(rv, dict)) and rv.callee_q.endswith("::any") and re.search(r"\.r_ifs\)?$", expr(vq, rv.args[0])):
            covered.add("r_ifs")
        else:
            res.violation("R3.6", "required-set|initial", "%s bb%d" % (vq.where(), d[0]), "`required` starts from %s — neither false nor any(r_ifs)" % (rv if isinstance(rv, dict) else rv.callee_q.rsplit("::", 1)[1]))
    for d in later:
        rv, i = d[3], d[0]
        gl = guard_strs(vq, i)
        if not (isinstance(rv, dict) and rv["k"] == "use" and op_int(rv["op"]) == 1):
            res.violation("R3.6", "required-set|overwritten", "%s bb%d" % (vq.where(), i),
                          "`required` is recomputed (%s) after it may already have been set: an earlier matching required-if rule is forgotten (the rules are alternatives, they must be OR-ed)" % (
                              rv.get("k") if isinstance(rv, dict) else rv.callee_q.rsplit("::", 1)[1] + "(" + expr(vq, rv.args[0])[-40:] + ")"))
            continue
        if any(re.match(r"^T:check_explicit\(matcher,.*\.r_ifs\)\)#Some\.0\.0,ArgPredicate::Equals\(into\(.*\.r_ifs\)\)#Some\.0\.1\)\)\)$", g) for g in gl):
            covered.add("r_ifs")
            res.ok("R3.6", "required-set|r_ifs", "%s bb%d" % (vq.where(), i), "any (other, val) of r_ifs with other == val explicitly")
        elif any(re.match(r"^T:all\(iter\(.*\.r_ifs_all\)", g) for g in gl):
            covered.add("r_ifs_all")
            res.check(any(re.match(r"^F:is_empty\(.*\.r_ifs_all\)$", g) for g in gl), "R3.6", "required-set|r_ifs_all", "%s bb%d" % (vq.where(), i),
                      "all of r_ifs_all hold and the list is not empty", "an empty required_if_eq_all list makes the argument required")
        elif any(re.match(r"^T:fails_arg_required_unless\(", g) for g in gl):
            covered.add("r_unless")
            res.ok("R3.6", "required-set|r_unless", "%s bb%d" % (vq.where(), i), "fails_arg_required_unless")
        else:
            res.violation("R3.6", "required-set|unrecognised", "%s bb%d" % (vq.where(), i),
                          "a conditional requirement is raised under %s — not one of: a matching r_ifs pair, all of r_ifs_all (non-empty), fails_arg_required_unless" % [g[:90] for g in gl[-2:]])
    if defs and not any(i_["status"] == "violation" and i_["key"].startswith("R3.6|required-set") for i_ in res.items):
        missing_src = {"r_ifs", "r_ifs_all", "r_unless"} - covered
        res.check(not missing_src, "R3.6", "required-set|all-three-sources", vq.where(), "required-if-any, required-if-all and required-unless all feed `required`",
                  "validate_required no longer raises a conditional requirement from %s" % sorted(missing_src))
    # candidates = arguments that are not explicitly present
    flt = [c for c in vq.calls_to(r"Iterator::filter$") if re.match(r"^get_arguments\(self\.cmd\)$", expr(vq, c.args[0]))]
    res.floor("R3.6", "get_arguments().filter in validate_required", len(flt), 1)
    for c in flt:
        cbs = closure_bodies(fx, c)
        okf = any(expr(cb, 0).startswith("Not(check_explicit(") and any("IsPresent" in agg_variants(cb, cc.args[2]) for cc in cb.calls_to(r"ArgMatcher::check_explicit$")) for cb in cbs)
        res.check(okf, "R3.6", "candidates-absent-only", c.where(), "conditional requirements examined for arguments not explicitly present",
                  "conditional requirements are examined for a different candidate set than `not explicitly present`: %s" % [expr(cb, 0)[:80] for cb in cbs])
    # fails_arg_required_unless polarity: truth table over (E = r_unless_all empty, L = all of r_unless_all present, A = any of r_unless present)
    tbl = bool_table(fu, [("E", r"^is_empty\(a\.r_unless_all\)$"), ("L", r"^all\(iter\(a\.r_unless_all\)"), ("A", r"^any\(iter\(a\.r_unless\)")])
    wrong = sorted((k, v) for k, v in tbl.items() if v is not None and v != ((k[0] or not k[1]) and not k[2]))
    unknown = [k for k, v in tbl.items() if v is None]
    if unknown and not wrong:
        res.floor("R3.6", "truth table of fails_arg_required_unless (rows the evaluator could follow)", 8 - len(unknown), 8)
    else:
        res.check(not wrong, "R3.6", "unless-polarity", fu.where(), "fails = (r_unless_all empty or not all present) and none of r_unless present — all 8 rows",
                  "fails_arg_required_unless differs from `(unless_all.is_empty() || !all present) && !any present` for (empty, all, any) = %s" % wrong[:3])

    # ---- R3.7 requires propagation
    gr = fx.body("clap_builder::parser::validator::Validator::gather_requires")
    un = gr.calls_to(r"Command::unroll_arg_requires$")
    require(fx, res, "R3.7", "unrolls-requires", gr, r"Command::unroll_arg_requires$", len(un), 1, "gather_requires no longer unrolls the `requires` of present arguments")
    for c in un:
        okc = False
        for cb in closure_bodies(fx, c):
            for t in cb.calls_to(r"bool::then(_some)?$"):
                e = expr(cb, t.args[0])
                okc = okc or re.fullmatch(r"check_explicit\(arg1\.0,arg2\.0\)", e) is not None
        res.check(okc, "R3.7", "relevance-closure", c.where(), "a requirement is relevant iff matched.check_explicit(its predicate)",
                  "the relevance closure of gather_requires no longer is `matched.check_explicit(pred).then(req)`")
    ins = gr.calls_to(r"ChildGraph<[^>]*>::insert$|ChildGraph::insert$")
    from_unroll = [c for c in ins if re.match(r"^next\(into_iter\(unroll_arg_requires\(", expr(gr, c.args[1]))]
    from_group = [c for c in ins if re.match(r"^clone\(next\(into_iter\(find_group\(.*\.requires\)\)#Some\.0\)$", expr(gr, c.args[1]))]
    for key, cs, what in (("arg", from_unroll, "unrolled requirements of a present argument"), ("group", from_group, "requirements of a present group")):
        if not cs:
            res.violation("R3.7", "inserted|" + key, gr.where(), "gather_requires no longer inserts the %s into the required graph" % what)
        for c in cs:
            bg = [g for g in guard_strs(gr, c.bb) if re.match(r"^[TF]:", g)]
            res.check(not bg, "R3.7", "inserted|" + key, c.where(), "every one of the %s is inserted" % what, "%s are inserted only under %s" % (what, bg))
    ur = fx.body("clap_builder::builder::command::Command::unroll_arg_requires")
    pushes = ur.calls_to(r"Vec::push$")
    coll = [c for c in pushes if re.match(r"^next\(into_iter\(filter_map\(iter\(find\(self,pop\(.*\.requires\),func\)\)\)#Some\.0$", expr(ur, c.args[1]))]
    cont = [c for c in pushes if re.match(r"^get_id\((filter\()?find\(self,next\(into_iter\(filter_map\(", expr(ur, c.args[1]))]
    res.floor("R3.7", "collecting push in unroll_arg_requires", len(coll), 1)
    for c in coll:
        bg = [g for g in guard_strs(ur, c.bb) if re.match(r"^[TF]:", g) and not re.match(r"^F:contains\(", g)]
        res.check(not bg, "R3.7", "collects-every-relevant", c.where(), "every relevant requirement of a visited arg is collected", "requirements are collected only under %s" % bg)
    def _under_nonempty_requires(c):
        if any(re.match(r"^F:is_empty\(.*\.requires\)$", g) for g in guard_strs(ur, c.bb)):
            return True
        # `self.find(&r).filter(|req| !req.requires.is_empty())` then `if let Some(req) = ..`: the pushed id is the payload of that filter
        e_ = expr(ur, c.args[1])
        for f_ in ur.calls_to(r"Option(<[^>]*>)?::filter$"):
            if expr(ur, f_.dest) in e_ and any(re.fullmatch(r"Not\(is_empty\(\w+\.requires\)\)", expr(cb, 0)) for cb in own_closures(fx, f_)):
                return True
        return False
    res.check(bool(cont) and all(_under_nonempty_requires(c) for c in cont), "R3.7", "transitive", ur.where(),
              "requirements that require something are visited too", "unroll_arg_requires no longer follows requirements transitively (or under a different condition)")


    # ---- R3.5b exclusive: alone-ness is counted over all explicitly present args
    for c in ve.calls_to(r"Iterator>?::count$"):
        flt = [f_ for f_ in ve.calls_to(r"Iterator::filter$") if expr(ve, c.args[0]) == "filter(%s,%s)" % (expr(ve, f_.args[0]), expr(ve, f_.args[1]))]
        preds = sorted(set(cc.callee_q.rsplit("::", 2)[-2] + "::" + cc.callee_q.rsplit("::", 1)[1] for f_ in flt for cb in closure_bodies(fx, f_) for t in tree(cb) for cc in t.calls()
                           if cc.callee_q and cc.callee_q.startswith("clap_builder::") and not sp_macro(cc.sp)))
        res.check(bool(flt) and preds == ["Command::find", "MatchedArg::check_explicit"], "R3.5", "exclusive-count-over-all-explicit", c.where(), "count over explicitly present arguments (no further predicate)",
                  "validate_exclusive counts only a subset of the present arguments (filter consults %s): some combinations with an exclusive argument are no longer counted" % preds)
    early = [i for i, j, s_ in ve.stmts() if s_["k"] == "assign" and s_["place"] == 0 and s_["rv"]["k"] == "agg" and s_["rv"].get("variant") == "Ok"]
    # (an Ok on the `no exclusive argument among them` edge of the final search is the normal result, not the early return)
    early = [i for i in early if not any(re.match(r"^!?V\d+:", g) for g in guard_strs(ve, i))]
    res.check(bool(early) and all(any(o == "Le" and b_ == "1" and a.startswith("count(") for (o, a, b_) in cmp_facts(ve, i)) for i in early), "R3.5", "exclusive-early-return-threshold", ve.where(),
              "early Ok exactly when at most one argument is present", "validate_exclusive returns early under %s" % [sorted(cmp_facts(ve, i)) for i in early])
    # ---- R3.8 presence records only removed for overridden args
    from rules.c07 import removal_census
    removal_census(fx, res, "R3.8")

    # ---- R3.9 relations stay declared (shared with C07 R7.6) and groups are marked present for every explicit source (shared with C06 R6.6)
    from rules.c07 import relation_setters_accumulate
    relation_setters_accumulate(fx, res, "R3.9")
    psc = fx.body("clap_builder::parser::parser::Parser::start_custom_arg")
    grp = psc.calls_to(r"ArgMatcher::start_custom_group$")
    require(fx, res, "R3.9", "groups-recorded", psc, r"ArgMatcher::start_custom_group$", len(grp), 1, "start_custom_arg no longer records the groups of a present argument")
    for c in grp:
        gl = explicit_guards(psc, c)
        res.check(gl == ["T:is_explicit(source)"], "R3.9", "groups-present-for-every-explicit-source", c.where(), "groups recorded exactly when the source is explicit (command line or environment)",
                  "a group is marked present only under %s: a member supplied through its environment variable is explicitly present but conflicts_with(group) / ArgGroup::requires are not enforced for it" % gl)
