"""C01 — parsing is total: any argv against any valid command returns, never panics."""
import os, re
from rulekit import *
import vset, panics

EXPLANATION = (
    "Structural necessary conditions of totality, decided on MIR of clap_builder + clap_lex: "
    "R1.1 PANIC — call-graph reachability from Command::try_get_matches_from{,_mut} and Error::{render,kind,exit_code,"
    "use_stderr,Display} (debug_asserts.rs = validity gate excluded); every explicit panic operation reachable "
    "(unwrap/expect, panic!/unreachable!/assert!, Index, slice ops, checked arithmetic) must be discharged by a dominating "
    "guard on the same canonical expression (G), an uninhabited payload type (T), variant-set infeasibility (V; callee "
    "summaries of parse_long_arg/parse_short_arg/parse_opt_value/react prove the unreachable!() arms dead), the build "
    "invariant (B) or an audited entry of audit/panic.tsv (A). R1.2 group-id confusion — ids drawn from "
    "ArgMatcher::{arg_ids,args}/ArgMatches::ids (which include group ids) must not reach Command::find(..).unwrap()/"
    "expect() or cmd[id] without a Some-guard. R1.3 error-ignoring polarity in Command::_do_parse, "
    "Parser::parse_subcommand and get_matches_with. R1.4 loop progress: the only backward cursor motion on the parse "
    "path is seek(Current(-1)) in the flag-subcommand branch, followed by loop exit. R1.5 ErrorKind::as_str table. "
    "R1.4b worklist termination: every pop/push worklist loop on the parse path either guards its pushes with a visited set that receives the same element (unroll_arg_requires), or is listed with the validity-gate assertion that excludes cycles, and that assertion is found in assert_app with its diverging false edge (unroll_args_in_group: every member of a group must be an ARGUMENT id, so groups cannot nest). "
    "NOT decided: that the audited invariants hold for every command the debug gate accepts; termination of other loops."
    ' R1.1 lemma: the name handed to the unwrapped _build_subcommand in parse_help_subcommand is find_subcommand(..).get_name() on the same command.'
    " R1.1 lemma (added): the flag-subcommand lookups (possible_long_flag_subcommand, find_long_subcmd, find_short_subcmd) answer with get_name(), never with a found alias — Parser::parse unwraps find_subcommand(answer). R1.A accessor layer (lib/accessors.py): for the is_*_set / get_* accessors this property's rules name — the bool builder sets and unsets one flag on the right edges and the predicate reads that same flag; builder scope (global/local) as in audit/setting_scope.tsv; no two predicates/builders share a flag; setting/unset_setting/global_setting/is_set forward to the right flag word, the flag word is |=bit / &=!bit / &bit!=0 with bit = 1<<discriminant, _propagate_subcommand hands g_settings to the child's settings and g_settings; plain field getters return their field."
)
TRUSTED = ["rustc MIR", "clapfacts", "lib/vset.py", "lib/panics.py discharge rules", "audit/panic.tsv (each entry read, one reason per line)"]
ASSUMPTIONS = ["user-supplied value parsers / closures do not panic", "sums of lengths, counters and small constants do not overflow usize",
               "std/anstream/strsim callees do not panic on the arguments given"]

AUDIT = os.path.join(os.path.dirname(os.path.dirname(os.path.abspath(__file__))), "audit", "panic.tsv")

MATCHER_ID_SOURCES = r"(clap_builder::parser::arg_matcher::ArgMatcher::(arg_ids|args)|clap_builder::parser::matches::arg_matches::ArgMatches::ids)$"
FIND = r"^clap_builder::builder::command::Command::find$"
CMD_INDEX = r"^<clap_builder::builder::command::Command as std::ops::index::Index>::index$"


def parse_entries(fx):
    ents = [fx.body("clap_builder::builder::command::Command::try_get_matches_from_mut"),
            fx.body("clap_builder::builder::command::Command::try_get_matches_from")]
    ents += fx.bodies(r"^clap_builder::error::Error::(render|kind|exit_code|use_stderr)$")
    ents += fx.bodies(r"^<clap_builder::error::Error as std::fmt::Display>::fmt$")
    return ents


def gate(b):
    return "::debug_asserts::" in b.q


def num_vals_invariant(fx, res, rule):
    """B: Arg::_build assigns num_vals on every path where it is not already Some."""
    ab = fx.body("clap_builder::builder::arg::Arg::_build")
    wblocks = set()
    for i, j, s in ab.stmts():
        if s["k"] == "assign" and not isinstance(s["place"], int) and any(str(e).startswith(".num_vals@") for e in s["place"][1:]):
            wblocks.add(i)
    for c in ab.calls_to(r"Option::get_or_insert(_with)?$", r"Option::insert$"):
        if re.search(r"num_vals", expr(ab, c.args[0])):
            wblocks.add(c.bb)
    ok = False
    why = "no write of num_vals found"
    if wblocks:
        miss = ab.must_pass(wblocks)
        if not miss:
            ok, why = True, "every path of Arg::_build assigns num_vals"
        else:
            for d in ab.discr_switches():
                if re.search(r"num_vals", expr(ab, d[1])):
                    some_tgt = d[3].get(1)
                    if some_tgt is not None and not ab.must_pass(wblocks, without_blocks=(some_tgt,)):
                        ok, why = True, "Arg::_build assigns num_vals on every path where it is not already Some"
            for c in ab.calls_to(r"Option::is_some$", r"Option::is_none$"):
                if re.search(r"num_vals", expr(ab, c.args[0])):
                    br = ab.call_branch(c)
                    if br:
                        skip = br[1] if c.is_(r"is_some$") else br[2]
                        if not ab.must_pass(wblocks, without_blocks=(skip,)):
                            ok, why = True, "Arg::_build assigns num_vals unless it is already Some"
    res.check(ok, rule, "B|num_vals-set|" + ab.q, ab.where(), why,
              "Arg::_build has a path to return on which num_vals may stay None (get_num_args().expect(..) would panic)")
    # and every Arg of a built command went through _build: Command::_build_self calls Arg::_build for all args
    bs = fx.body("clap_builder::builder::command::Command::_build_self")
    res.check(bool(tree_calls(bs, r"clap_builder::builder::arg::Arg::_build$")), rule, "B|build-self-builds-args|" + bs.q, bs.where(),
              "Command::_build_self calls Arg::_build", "Command::_build_self no longer builds its args")


def matcher_derived(fx, body, operand, depth=0):
    """Does the id operand derive from an iterator over matcher ids (which contain group ids)?
    Returns a description or None."""
    for o in origins(body, operand, passthrough=DEFAULT_PASS + [r"Iterator>?::next$", r"Iterator::next$", r"::filter$", r"::cloned$", r"::copied$", r"::rev$", r"::chain$", r"::peekable$", r"::by_ref$", r"::skip$"]):
        if o.kind == "call" and o.call.callee_q and re.search(MATCHER_ID_SOURCES, o.call.callee_q):
            return "%s at %s" % (o.call.callee_q.rsplit("::", 1)[1], o.call.where())
        if o.kind == "param" and body.kind == "Closure" and o.detail >= 2 and body.parent is not None and depth < 3:
            # closure parameter: look at the iterator adaptor in the parent that takes this closure
            for c in body.parent.calls():
                if body.q in c.closures and c.args:
                    if c.is_(r"Iterator::(map|filter|filter_map|find|any|all|for_each|flat_map|find_map|position)$"):
                        r = matcher_derived(fx, body.parent, c.args[0], depth + 1)
                        if r:
                            return r
    return None


def run(ctx):
    fx, res = ctx.fx, ctx.res

    # ---------------- R1.2 group-id confusion
    n_sites = n_tainted = 0
    for b in fx.bodies(r"^clap_builder::"):
        if gate(b):
            continue
        for c in b.calls():
            q = c.callee_q or ""
            is_find = re.search(FIND, q) is not None
            is_index = re.search(CMD_INDEX, q) is not None and c.targs and "Id" in "".join(c.targs)
            if not (is_find or is_index) or len(c.args) < 2:
                continue
            n_sites += 1
            src = matcher_derived(fx, b, c.args[1])
            if not src:
                continue
            n_tainted += 1
            key = "%s|%s" % (b.q, "index" if is_index else "find")
            if is_index:
                res.violation("R1.2", key, c.where(), "cmd[id] with an id taken from matcher ids (%s): group ids are not args -> Index panics" % src)
                continue
            # uses of the find result
            t = taint_forward(b, [pl_local(c.dest)], call_transfer=lambda cc, ta: cc.is_(r"Option::(as_ref|as_deref|copied|cloned)$"))
            bad = []
            for u in b.calls():
                if u is c or not u.args or op_local(u.args[0]) not in t:
                    continue
                if u.is_(r"^std::option::Option::(unwrap|expect|unwrap_unchecked)$"):
                    s = panics.Site(b, u.bb, "unwrap", "unwrap", expr(b, u.args[0]), u.sp)
                    if not panics.discharge_local(s):
                        bad.append(u)
            if bad:
                res.violation("R1.2", key + "|unwrap", bad[0].where(),
                              "Command::find(id).unwrap()/expect() where id comes from matcher ids (%s), which include group ids; "
                              "sibling call sites guard the None (filter_map / if let Some)" % src)
            else:
                res.ok("R1.2", key, c.where(), "find(id) on matcher id (%s): None is handled" % src)
    res.floor("R1.2", "Command::find / cmd[id] call sites", n_sites, 35)
    res.floor("R1.2", "lookups keyed by matcher-derived ids", n_tainted, 8)

    # ---------------- R1.3 error-ignoring polarity
    dp = fx.body("clap_builder::builder::command::Command::_do_parse")
    gm = dp.calls_to(r"Parser::get_matches_with$")
    res.floor("R1.3", "get_matches_with call in _do_parse", len(gm), 1)
    # blocks that construct Err(error) for return after get_matches_with failed
    err_rets = []
    for i, j, s in dp.stmts():
        if s["k"] == "assign" and s["place"] == 0 and s["rv"]["k"] == "agg" and s["rv"].get("variant") == "Err":
            err_rets.append(i)
    res.floor("R1.3", "Err return in _do_parse", len(err_rets), 1)
    for i in err_rets:
        gl = guards(dp, i)
        # the error is returned iff !(IgnoreErrors && use_stderr): on each path, either F:is_set(..IgnoreErrors) or F:use_stderr(error)
        pol = [(p, e) for p, e, _ in gl if re.search(r"is_set\(|use_stderr\(", e)]
        ok = any(p == "F" for p, e in pol) and not any(p == "T" and re.search(r"use_stderr\(", e) and any(p2 == "T" and re.search(r"is_set\(", e2) for p2, e2 in pol) for p, e in pol)
        # stronger: the block must NOT be reachable on the (is_set true, use_stderr true) path
        both_true = False
        for c_is in dp.calls_to(r"Command::is_set$"):
            br = dp.call_branch(c_is)
            if not br:
                continue
            for c_us in dp.calls_to(r"error::Error::use_stderr$"):
                br2 = dp.call_branch(c_us)
                if not br2:
                    continue
                # path: is_set true edge -> use_stderr true edge -> reaches i ?
                if dp.reaches(br[1], c_us.bb) and i in dp.reachable(br2[1]):
                    both_true = True
        res.check(not both_true and bool(dp.calls_to(r"error::Error::use_stderr$")) and bool(dp.calls_to(r"Command::is_set$")),
                  "R1.3", "do_parse|err-return-polarity", "%s bb%d" % (dp.where(), i),
                  "Err(error) is returned only when !(IgnoreErrors && error.use_stderr())",
                  "_do_parse returns/ignores errors under a different condition than IgnoreErrors && use_stderr(): guards %s" % pol)
    # is_set argument is AppSettings::IgnoreErrors
    for c in dp.calls_to(r"Command::is_set$"):
        vs = agg_variants(dp, c.args[1])
        if has_bool(dp, err_rets[0], "F", r"is_set\(") or True:
            res.check("IgnoreErrors" in vs or not vs, "R1.3", "do_parse|setting", c.where(), "is_set(%s)" % sorted(vs), "is_set tests %s, expected IgnoreErrors" % sorted(vs))
    # the swallow branch: use_stderr must be called on the error of get_matches_with
    for c in dp.calls_to(r"error::Error::use_stderr$"):
        e = expr(dp, c.args[0])
        res.check(re.search(r"get_matches_with\(", e) is not None, "R1.3", "do_parse|use_stderr-of-error", c.where(), "use_stderr(%s)" % e[:80],
                  "use_stderr is not evaluated on the parse error: %s" % e[:120])
    ps = fx.body("clap_builder::parser::parser::Parser::parse_subcommand")
    ies = ps.calls_to(r"Command::is_ignore_errors_set$")
    res.floor("R1.3", "is_ignore_errors_set in parse_subcommand", len(ies), 1)
    for i, j, s in ps.stmts():
        if s["k"] == "assign" and s["place"] == 0 and s["rv"]["k"] == "agg" and s["rv"].get("variant") == "Err":
            res.check(has_bool(ps, i, "F", r"is_ignore_errors_set\(|partial_parsing_enabled"), "R1.3", "parse_subcommand|err-return", "%s bb%d" % (ps.where(), i),
                      "subcommand error returned only when ignore_errors is off", "parse_subcommand returns the subcommand's error although ignore_errors is set (guards %s)" % guard_strs(ps, i))
    gmw = fx.body("clap_builder::parser::parser::Parser::get_matches_with")
    cl = [cb for c in gmw.calls_to(r"Result::map_err$") for cb in closure_bodies(fx, c)]
    # match form: `match self.parse(..) { Err(err) => { if ignore_errors { env; defaults } return Err(err) } Ok(()) => {} }` — the calls on
    # the Err edge of parse() play the closure's role
    err_edge = [c for c in gmw.calls_to(r"Parser::add_defaults$", r"Parser::add_env$") if any(re.match(r"^V1:parse\(self,", g) for g in guard_strs(gmw, c.bb))]
    res.floor("R1.3", "map_err closure of get_matches_with", len(cl) + (1 if err_edge else 0), 1)
    for c in err_edge:
        res.check(has_bool(gmw, c.bb, "T", r"is_ignore_errors_set\("), "R1.3", "get_matches_with|defaults-on-error|" + c.callee_q.rsplit("::", 1)[1], c.where(),
                  "env/defaults are added after a parse error only under ignore_errors", "env/defaults added after an error without the ignore_errors test")
    for cb in cl:
        for c in cb.calls_to(r"Parser::add_defaults$", r"Parser::add_env$"):
            res.check(has_bool(cb, c.bb, "T", r"is_ignore_errors_set\("), "R1.3", "get_matches_with|defaults-on-error|" + c.callee_q.rsplit("::", 1)[1], c.where(),
                      "env/defaults are added after a parse error only under ignore_errors", "env/defaults added after an error without the ignore_errors test")

    # ---------------- R1.1c the audit tables carry no unused line: an unused line would silently absorb a NEW panic site with the same key
    allb = [b for c in fx.crates.values() for b in c.bodies] if ctx.tier == "thorough" and ctx.config == "full" else []
    ginv = panics.inventory(fx, allb) if allb else []
    from collections import Counter as _C
    for tsv in (("panic.tsv", "c16.tsv", "c18.tsv") if allb else ()):
        ga = panics.load_audit(os.path.join(os.path.dirname(AUDIT), tsv))
        gu = _C(s_.audit_key() for s_ in ginv if not s_.discharge)
        for k, (n_, why, canon_) in ga.items():
            if k == canon_ and sum(gu[a] for a, v_ in ga.items() if v_[2] == canon_) < n_:
                # a panic site that went away is never a violation of totality and not a reason to withhold the verdict: recorded only.
                # (On the pinned tree no line is unused — bin/mknames reports unused lines when the tables are regenerated — so a line can only become unused through an edit.)
                res.note("R1.1c: audit line `%s` of %s covers %d site(s) but only %d exist now (a site was removed or changed shape)" % (k, tsv, n_, gu[k]))
    # ---------------- R1.3b ignore_errors is a tree-wide setting (shared rule R5.8)
    from rules.c05 import global_setters
    global_setters(fx, res, "R1.3", ["ignore_errors"])
    # ---------------- R1.1b checked lemma behind the flat_map audit entries (shared with C12)
    import lemmas
    lemmas.flat_map_lockstep(fx, res, "R1.1")
    lemmas.build_subcommand_name_exists(fx, res, "R1.1")
    lemmas.flag_subcommand_lookup_canonical(fx, res, "R1.1")
    # ---------------- R1.4b worklist loops terminate
    GATED = {"clap_builder::builder::command::Command::unroll_args_in_group": "group members are argument ids (assert_app)"}
    nwl = 0
    for b in fx.bodies(r"^clap_builder::"):
        if gate(b):
            continue
        for p in b.calls_to(r"Vec::pop$|VecDeque::pop_front$|BinaryHeap::pop$"):
            wl = expr(b, p.args[0])
            pushes = [c for c in b.calls_to(r"Vec::push$|VecDeque::push_back$|BinaryHeap::push$") if expr(b, c.args[0]) == wl and b.reaches(c.bb, p.bb) and b.reaches(p.bb, c.bb)]
            if not pushes:
                continue
            nwl += 1
            popped = "%s#Some.0" % expr(b, p.dest)
            protected = True
            for c in pushes:
                pushed = expr(b, c.args[1])
                okv = False
                for g in guard_strs(b, c.bb):
                    m = re.fullmatch(r"F:contains\((.*?),(.*)\)", g)
                    if not m:
                        continue
                    S, x = m.group(1), m.group(2)
                    if x not in (pushed, popped) and not pushed.startswith("get_id(") :
                        continue
                    # the visited collection must receive x on an edge compatible with this push (same or dominating block)
                    recv = [q for q in b.calls_to(r"Vec::push$|insert$") if expr(b, q.args[0]) == S and expr(b, q.args[1]) == x and (b.block_dominates(q.bb, c.bb) or q.bb == c.bb)]
                    if recv:
                        okv = True
                protected = protected and okv
            if protected:
                res.ok("R1.4", "worklist|" + b.q, p.where(), "pushes guarded by a visited set that receives the element")
            elif b.q in GATED:
                aa = fx.body("clap_builder::builder::debug_asserts::assert_app")
                okg = False
                for c in aa.calls_to(r"Iterator>?::any$"):
                    if expr(aa, c.args[0]) != "get_arguments(cmd)" or not re.search(r"get_groups\(cmd\)\)\)#Some\.0\.args\)\)#Some\.0\)$", expr(aa, c.args[1])):
                        continue
                    br = aa.call_branch(c)
                    cbs = closure_bodies(fx, c)
                    if br and cbs and re.fullmatch(r"eq\(get_id\(x\),arg1\.0\)", expr(cbs[0], 0)) and br[1] not in aa.reachable(br[2]) and not [r for r in aa.return_blocks() if r in aa.reachable(br[2])]:
                        okg = True
                res.check(okg, "R1.4", "worklist-gated|" + b.q, p.where(), "no visited set, but the gate asserts: " + GATED[b.q],
                          "%s re-queues group ids without a visited set and assert_app no longer insists that every group member is an argument id: a group reachable from itself makes parsing loop forever" % b.q.rsplit("::", 1)[1])
            else:
                res.violation("R1.4", "worklist|" + b.q, p.where(), "worklist loop pushes %s without a visited set and without a listed gate assertion: termination is not established" % [expr(b, c.args[1])[:50] for c in pushes])
    res.floor("R1.4", "worklist loops in clap_builder", nwl, 2)
    # ---------------- R1.4 loop progress
    pred = fx.reachable_from(parse_entries(fx)[:2], stop=gate, crates={"clap_builder"})
    seeks = []
    for (b, _) in pred.values():
        seeks += b.calls_to(r"clap_lex::RawArgs::seek$")
    res.floor("R1.4", "seek calls on the parse path", len(seeks), 1)
    for c in seeks:
        b = c.body
        vs = agg_variants(b, c.args[2])
        e = expr(b, c.args[2])
        back_one = re.search(r"SeekFrom::Current\(-1\)", e) is not None
        key = "seek|%s" % b.q
        if "Start" in vs and re.search(r"SeekFrom::Start\(0\)", e):
            res.ok("R1.4", key + "|start0", c.where(), "seek(Start(0)) rewinds before parsing starts (multicall re-dispatch)")
            continue
        res.check(back_one, "R1.4", key, c.where(), "the only backward motion is Current(-1): %s" % e,
                  "cursor moved backwards by other than one token on the parse path: %s" % e)
        # it must sit inside the flag-subcommand closure of Parser::parse and be followed by loop exit
        if b.kind == "Closure" and b.parent is not None and b.parent.q.endswith("Parser::parse"):
            P = b.parent
            mk = [cc for cc in P.calls() if b.q in cc.closures]
            for cc in mk:
                nxt = P.calls_to(r"clap_lex::RawArgs::next$")
                loop_head = nxt[0].bb if nxt else None
                # after this call the loop head must not be reachable again (break)
                again = loop_head is not None and cc.target is not None and loop_head in P.reachable(cc.target)
                res.check(not again, "R1.4", "seek-then-break|" + P.q, cc.where(), "the token is revisited only by the recursive sub-parser (loop exits after the seek)",
                          "after seeking back the parse loop can read the same token again (possible livelock)")
            # and the skip counter is set to >= 1 in the same closure
            # the closure captures `&mut self.flag_subcmd_skip`: the store is `*capture = (cur_idx - at) + 1`
            stores = [s for i, j, s in b.stmts() if s["k"] == "assign" and not isinstance(s["place"], int) and s["place"][-1] == "*" and s["rv"]["k"] == "use"]
            okk = any(re.match(r"^Add\(Sub\(.*\),1\)$", expr(b, s["rv"]["op"])) for s in stores)
            res.check(okk, "R1.4", "skip>=1|" + b.q, b.where(), "flag_subcmd_skip = (cur_idx - at) + 1 >= 1 in the same block as the seek",
                      "flag_subcmd_skip is not set to (..)+1 >= 1 together with the backward seek: %s" % [expr(b, s["rv"]["op"]) for s in stores])
        elif b.q.endswith("Parser::parse") and b.kind != "Closure" and any(re.match(r"^V1:self\.flag_subcmd_at$", g) for g in guard_strs(b, c.bb)):
            # the same step written as `match self.flag_subcmd_at { Some(at) => { seek(-1); skip = ..; true } None => false }` in parse itself
            nxt = b.calls_to(r"clap_lex::RawArgs::next$")
            loop_head = nxt[0].bb if nxt else None
            again = loop_head is not None and c.target is not None and loop_head in b.reachable(c.target)
            res.check(not again, "R1.4", "seek-then-break|" + b.q, c.where(), "the token is revisited only by the recursive sub-parser (loop exits after the seek)",
                      "after seeking back the parse loop can read the same token again (possible livelock)")
            after = b.reachable(c.target if c.target is not None else c.bb)
            stores = [s_ for i_, s_ in writes_field(b, "flag_subcmd_skip") if i_ in after or i_ == c.bb]
            okk = any(s_["rv"]["k"] == "use" and re.match(r"^Add\(Sub\(.*\),1\)$", expr(b, s_["rv"]["op"])) for s_ in stores)
            res.check(okk, "R1.4", "skip>=1|" + b.q, b.where(), "flag_subcmd_skip = (cur_idx - at) + 1 >= 1 together with the seek",
                      "flag_subcmd_skip is not set to (..)+1 >= 1 together with the backward seek")
        else:
            res.violation("R1.4", key + "|place", c.where(), "backward seek outside the flag-subcommand branch of Parser::parse")

    # ---------------- R1.5 ErrorKind::as_str table used by unwrap in error/format.rs
    kinds = enum_variants(fx, "error::kind::ErrorKind")
    b_as = fx.body("clap_builder::error::kind::ErrorKind::as_str")
    KIND = "clap_builder::error::kind::ErrorKind"
    eng = vset.Engine(fx)
    none_kinds = []
    for vi, name in enumerate(kinds):
        r = eng.analyze(b_as, {1: frozenset([("a", KIND, vi, name, ())])})
        vs = vset.variants_in(r.ret, strip_wrappers=())
        if vs != {"Some"}:
            none_kinds.append(name)
    fmtb = fx.body("clap_builder::error::format::write_dynamic_context")
    for c in fmtb.calls_to(r"Option::unwrap$"):
        if re.search(r"^as_str\(kind\(", expr(fmtb, c.args[0])):
            arms = variant_guard(fmtb, c.bb, r"^kind\(")
            # discriminants of the arm this unwrap sits in
            okk = True
            armk = []
            for a in arms:
                if a.startswith("V"):
                    k = kinds[int(a[1:])]
                    armk.append(k)
                    if k in none_kinds:
                        okk = False
            res.check(okk and bool(armk), "R1.5", "as_str-some|" + ",".join(armk), c.where(), "as_str() is Some for %s (kinds without text: %s)" % (armk, none_kinds),
                      "kind().as_str().unwrap() in an arm (%s) for which as_str() may be None %s" % (armk, none_kinds))

    # ---------------- R1.1 PANIC inventory
    ents = parse_entries(fx)
    pred = fx.reachable_from(ents, stop=gate, crates={"clap_builder", "clap_lex"})
    bodies = [v[0] for v in pred.values() if not gate(v[0])]
    res.floor("R1.1", "bodies reachable from the parse/render entry points", len(bodies), 900)
    num_vals_invariant(fx, res, "R1.1")
    inv = panics.inventory(fx, bodies, engine=vset.Engine(fx, max_depth=3))
    res.floor("R1.1", "panic sites inventoried", len(inv), 120)
    audit = panics.load_audit(AUDIT)
    residual, stale = panics.apply_audit(res, "R1.1", inv, audit)
    res.note("R1.1: %d bodies, %d sites, %d residual" % (len(bodies), len(inv), len(residual)))
    # the unreachable!() arms of Parser::parse must be among the V-discharged sites
    pp = fx.body("clap_builder::parser::parser::Parser::parse")
    arms = [s for s in inv if s.body is pp and s.kind == "panic"]
    res.floor("R1.1", "unreachable!() arms in Parser::parse", len(arms), 4)
