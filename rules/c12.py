"""C12 — help and usage always render, list every visible item and nothing hidden."""
import os, re
from rulekit import *
import vset, panics
from rules.c01 import num_vals_invariant, gate

EXPLANATION = (
    "R12.1 PANIC over the rendering code: call-graph reachability from Command::{render_help,render_long_help,render_usage,"
    "render_version,write_help_err,write_version_err} and StyledStr Display; every unwrap/expect/index/slice op/checked "
    "subtraction (padding and column arithmetic in help_template.rs, usage.rs, textwrap, styled_str.rs) must be discharged by "
    "a dominating comparison on the same canonical expressions, constants, variant-set infeasibility or an audited entry of "
    "audit/panic.tsv. R12.2 HIDE: every iteration over arguments / subcommands / possible values in help_template.rs and "
    "usage.rs is classified from MIR (iterator chain with a filter closure that calls should_show_arg / "
    "should_show_subcommand / is_hide_set / get_visible_quoted_name / should_show_help; a loop whose item uses are dominated "
    "by the !is_hide_set edge; presence/metadata-only use; hand-over to a sibling that filters its slice parameter) — an "
    "unfiltered flow to output is a violation; should_show_arg must return false first on is_hide_set(). "
    "R12.2b get_visible_quoted_name yields a name only on the !hide edge. R12.5 the per-section BTreeMap in write_args is keyed by option_sort_key / positional_sort_key, which are built only from short, long, id, index and display order — attributes the validity gate keeps unique — so two visible arguments can never collapse into one entry. R12.4 completeness side: every filter/find/any on an item iteration in help_template/usage consults only the reviewed visibility and sectioning predicates (is_hide_set, should_show_*, get_help_heading, is_positional, is_global_set, ...), so no other predicate can drop a visible item. R12.3 the help error is rendered from the parser's current command. NOT decided: that every visible item is listed, "
    "boundedness of padding for every width."
    " R12.A accessor layer (lib/accessors.py): for the is_*_set / get_* accessors this property's rules name — the bool builder sets and unsets one flag on the right edges and the predicate reads that same flag; builder scope (global/local) as in audit/setting_scope.tsv; no two predicates/builders share a flag; setting/unset_setting/global_setting/is_set forward to the right flag word, the flag word is |=bit / &=!bit / &bit!=0 with bit = 1<<discriminant, _propagate_subcommand hands g_settings to the child's settings and g_settings; plain field getters return their field."
)
TRUSTED = ["rustc MIR", "clapfacts", "lib/panics.py", "audit/panic.tsv"]
ASSUMPTIONS = ["anstream/unicode-width/terminal_size do not panic", "fmt::Write for StyledStr/String is infallible"]

AUDIT = os.path.join(os.path.dirname(os.path.dirname(os.path.abspath(__file__))), "audit", "panic.tsv")
ITEM_SRC = (r"clap_builder::builder::command::Command::(get_arguments|get_opts|get_positionals|get_subcommands|get_non_positionals)$|"
            r"clap_builder::builder::arg::Arg::get_possible_values$|get_possible_values_cli$")
PRED = (r"(help_template::should_show_arg|help_template::should_show_subcommand|Arg::is_hide_set|Command::is_hide_set|"
        r"PossibleValue::is_hide_set|PossibleValue::should_show_help|PossibleValue::get_visible_quoted_name|Command::has_visible_subcommands)$")
ADAPT = r"Iterator::(filter|filter_map|any|all|find|find_map|position|map|flat_map|for_each|enumerate|max|collect|count|rev|chain|cloned|copied|skip|take|by_ref|peekable)$|IntoIterator>?::into_iter$|::iter$|Deref>?::deref$"
PRESENCE = r"(::is_empty$|::len$|Iterator::count$)"
META_ONLY = r"(Arg::get_help_heading|Arg::get_id|Arg::is_global_set|Arg::get_index)$"


def closures_in_chain(fx, body, t, seen=None):
    out = []
    for u in body.calls():
        if u.args and op_local(u.args[0]) in t:
            for cb in closure_bodies(fx, u):
                out.extend(tree(cb))
            for q in u.fnitems:
                out.append(q)
    return out


def classify(fx, body, src_local, depth=0):
    """How are the items obtained at `src_local` consumed?  -> (class, detail)"""
    def xfer(c, ta):
        return 0 in ta and (c.is_(ADAPT) or c.is_(r"Option::(unwrap|expect|unwrap_or_default)$"))
    t = taint_forward(body, [src_local], call_transfer=xfer)
    users = [u for u in body.calls() if u.args and any(op_local(a) in t for a in u.args)]
    cl = closures_in_chain(fx, body, t)
    for x in cl:
        if isinstance(x, str):
            if re.search(PRED, x):
                return "filtered", "fn item " + x.rsplit("::", 1)[1]
        elif x.calls_to(PRED):
            return "filtered", "closure calls " + x.calls_to(PRED)[0].callee_q.rsplit("::", 1)[1]
    # for loop: items from next()
    nexts = [u for u in users if u.is_(r"Iterator>?::next$") and op_local(u.args[0]) in t or u.is_(r"Iterator>?::next$") and any(op_local(a) in ref_set(body, t) for a in u.args)]
    if nexts:
        n = nexts[0]
        item = "%s#Some.0" % expr(body, n.dest)
        preds = [c for c in body.calls_to(PRED) if expr(body, c.args[-1]).startswith(item) or expr(body, c.args[0]).startswith(item)]
        if preds:
            # every other call that renders the item must be dominated by the visible edge of the predicate
            bad = []
            for u in body.calls():
                if u in preds or u is n:
                    continue
                if not any(expr(body, a).startswith(item) for a in u.args):
                    continue
                if not u.is_(r"Arg::stylized$", r"Arg::name_no_brackets$", r"ToString>?::to_string$", r"Display>?::fmt$", r"Command::format_group$", r"StyledStr::push_styled$"):
                    continue
                okd = any((has_bool(body, u.bb, "F", r"^is_hide_set\(%s" % re.escape(item)) or has_bool(body, u.bb, "T", r"^should_show_\w+\(.*%s" % re.escape(item))) for _ in [0])
                if not okd:
                    bad.append(u)
            if bad:
                return "unfiltered", "loop item rendered at %s without being dominated by the !is_hide_set edge" % sp_str(bad[0].sp)
            return "guarded-loop", "uses dominated by !is_hide_set(item)"
        # loop without a predicate: are items rendered?
        rend = [u for u in body.calls() if any(expr(body, a).startswith(item) for a in u.args) and u.is_(r"Arg::stylized$", r"ToString>?::to_string$", r"StyledStr::push_styled$")]
        if rend:
            return "unfiltered", "loop item rendered at %s without hide test" % sp_str(rend[0].sp)
    real = [u for u in users if not u.is_(ADAPT)]
    if real and all(u.is_(PRESENCE) for u in real):
        return "presence", "only is_empty/len/count"
    metas = [x for x in cl if not isinstance(x, str)]
    if metas and all(all(c.is_(META_ONLY) or c.is_(r"Option::|::branch$|from_residual$|PartialEq|::deref$|::eq$") for c in x.calls()) for x in metas):
        return "metadata", "closures only read heading/id"
    # passed to a sibling
    for u in real:
        if u.callee_q and u.callee_q.startswith("clap_builder::output::") and depth < 2:
            cb = fx.by_q.get(u.callee_q, [])
            if len(cb) == 1:
                ai = [k for k, a in enumerate(u.args) if op_local(a) in t]
                if ai:
                    c2, d2 = classify(fx, cb[0], ai[0] + 1, depth + 1)
                    return ("passed:" + c2), "%s param %d: %s" % (u.callee_q.rsplit("::", 1)[1], ai[0] + 1, d2)
    if not real:
        return "unused", ""
    return "unfiltered", "consumers: %s" % sorted(set((u.callee_q or "?").rsplit("::", 1)[-1] for u in real))[:6]


def ref_set(body, t):
    out = set(t)
    for i, j, s in body.stmts():
        if s["k"] == "assign" and s["rv"]["k"] in ("ref",) and pl_local(s["rv"]["place"]) in t:
            out.add(pl_local(s["place"]))
    return out


LIST_PRED_OK = (r"(arg::Arg::is_hide_set|command::Command::is_hide_set|possible_value::PossibleValue::is_hide_set|arg::Arg::get_help_heading|arg::Arg::is_positional|"
                r"arg::Arg::is_global_set|help_template::should_show_arg|help_template::should_show_subcommand|possible_value::PossibleValue::get_visible_quoted_name|"
                r"possible_value::PossibleValue::should_show_help|arg::Arg::get_id|arg::Arg::get_index|command::Command::get_name)$")


def listing_filters(fx, res, rule, body_rx):
    """Completeness side of the listing rules: a filter on an item iteration that feeds a listing may consult only the reviewed
    visibility / sectioning predicates.  Any other predicate can drop a visible item from the listing."""
    n = 0
    for b in fx.bodies(body_rx):
        for c in b.calls_to(ITEM_SRC):
            if not isinstance(c.dest, int):
                continue
            t = taint_forward(b, [c.dest], call_transfer=lambda cc, ta: 0 in ta and (cc.is_(ADAPT) or cc.is_(r"Option::(unwrap|expect|unwrap_or_default)$")))
            for u in b.calls():
                if not (u.args and op_local(u.args[0]) in t and u.is_(r"Iterator::(filter|filter_map|find|find_map|any|all|position|take_while|skip_while)$")):
                    continue
                n += 1
                extra = sorted(set(cc.callee_q.split("::", 1)[1] for cb in closure_bodies(fx, u) for x in tree(cb) for cc in x.calls()
                                   if cc.callee_q and re.match(r"^clap_(builder|mangen)::", cc.callee_q) and not sp_macro(cc.sp) and not re.search(LIST_PRED_OK, cc.callee_q)) |
                               set(q.split("::", 1)[1] for q in u.fnitems if re.match(r"^clap_(builder|mangen)::", q) and not re.search(LIST_PRED_OK, q)))
                res.check(not extra, rule, "listing-filter|%s|%s" % (b.q.split("::")[-1].split("{")[0] or b.q, u.callee_q.rsplit("::", 1)[1]), u.where(),
                          "filter consults only visibility / sectioning predicates", "a listing %s in %s also consults %s: items that are visible can be left out of the listing" % (u.callee_q.rsplit("::", 1)[1], b.q, extra))
    return n


def run(ctx):
    fx, res = ctx.fx, ctx.res
    # ---------------- R12.1 PANIC
    ents = fx.bodies(r"^clap_builder::builder::command::Command::(render_help|render_long_help|render_usage|render_usage_|render_version|render_long_version|write_help_err|write_version_err)$")
    ents += fx.bodies(r"^<clap_builder::builder::styled_str::StyledStr as std::fmt::Display>::fmt$")
    res.floor("R12.1", "render entry points", len(ents), 6)
    pred = fx.reachable_from(ents, stop=gate, crates={"clap_builder"})
    bodies = [v[0] for v in pred.values() if not gate(v[0])]
    res.floor("R12.1", "bodies reachable from the render entry points", len(bodies), 300)
    # scope: the property is about rendering; report only sites in output/*, styled_str, builder (stylized/to_string) and textwrap
    inv = panics.inventory(fx, bodies, engine=vset.Engine(fx, max_depth=2))
    outp = [s for s in inv if re.search(r"^clap_builder::(output|builder::styled_str|builder::arg|builder::command|util)", s.module())]
    res.floor("R12.1", "panic sites in rendering code", len(outp), 60)
    subs = [s for s in outp if s.kind == "arith" and s.what == "Overflow(Sub)" and s.module().startswith("clap_builder::output")]
    res.floor("R12.1", "unsigned subtractions in output/*", len(subs), 8)
    audit = panics.load_audit(AUDIT)
    panics.apply_audit(res, "R12.1", outp, audit)
    # the `max().expect()` over visible possible values relies on use_long_pv
    ulp = fx.body("clap_builder::output::help_template::HelpTemplate::use_long_pv")
    anyc = ulp.calls_to(r"Iterator::any$")
    okp = any(any(re.search(r"PossibleValue::should_show_help$", q) for q in c.fnitems) or any(cb.calls_to(r"PossibleValue::should_show_help$") for cb in closure_bodies(fx, c)) for c in anyc) \
        or true_only_if_exists(fx, ulp, r"get_possible_values\(arg\)", r"PossibleValue::should_show_help$")
    res.check(okp, "R12.1", "A-support|use_long_pv-any-visible", ulp.where(), "use_long_pv requires any(PossibleValue::should_show_help)",
              "use_long_pv no longer implies a visible possible value (help(): max().expect would panic)")
    ssh = fx.body("clap_builder::builder::possible_value::PossibleValue::should_show_help")
    res.check(bool(ssh.calls_to(r"PossibleValue::is_hide_set$")) or reads_field(ssh, "hide"), "R12.1", "A-support|should_show_help-visible", ssh.where(),
              "should_show_help implies !is_hide_set", "should_show_help no longer tests is_hide_set")

    # ---------------- R12.2 HIDE
    n = 0
    for b in fx.bodies(r"^clap_builder::output::(help_template|usage)::"):
        for c in b.calls_to(ITEM_SRC):
            if not isinstance(c.dest, int):
                continue
            n += 1
            cls, det = classify(fx, b, c.dest)
            key = "hide|%s|%s" % (b.q, c.callee_q.rsplit("::", 1)[1])
            res.check(not cls.endswith("unfiltered"), "R12.2", key, c.where(), "%s (%s)" % (cls, det),
                      "%s items reach output without a visibility filter: %s (%s)" % (c.callee_q.rsplit("::", 1)[1], cls, det))
    res.floor("R12.2", "item iteration sites in help_template/usage", n, 17)
    # slice parameters of the section writers are filtered inside
    for fn_, rx in (("write_args", r"should_show_arg$"), ("will_args_wrap", r"should_show_arg$"), ("will_subcommands_wrap", r"should_show_subcommand$")):
        b = fx.body("clap_builder::output::help_template::HelpTemplate::" + fn_)
        fl = [c for c in tree_calls(b, r"Iterator::filter$")]
        okf = any(cb.calls_to(rx) for c in fl for cb in closure_bodies(fx, c))
        if not okf:
            # loop form: `for x in items { if !should_show(x) { continue } .. }` — every other use of the item sits on the visible edge
            for sc_ in b.calls_to(rx):
                item = expr(b, sc_.args[-1])
                uses = [y for y in b.calls() if y is not sc_ and y.bb in b.reachable(0) and any(expr(b, a) == item for a in y.args)]
                okf = bool(uses) and all(has_bool(b, y.bb, "T", r"^" + re.escape(expr(b, sc_.dest)) + r"$") for y in uses)
        res.check(okf, "R12.2", "hide|param-filter|" + fn_, b.where(), "%s filters its items with %s" % (fn_, rx.rstrip("$")),
                  "%s iterates its argument list without %s" % (fn_, rx.rstrip("$")))
    # write_args: every insertion into the ordered map (what gets printed) is inside the filtered loop
    wa = fx.body("clap_builder::output::help_template::HelpTemplate::write_args")
    ins = wa.calls_to(r"BTreeMap::insert$")
    res.floor("R12.2", "ord_v.insert in write_args", len(ins), 1)
    for c in ins:
        e = expr(wa, c.args[-1])
        res.check(re.search(r"filter\(", e) is not None, "R12.2", "hide|write_args-insert", c.where(), "printed args come from the filtered iterator",
                  "write_args prints an argument that did not pass the should_show_arg filter: %s" % e[:120])
    # possible values in spec_vals go through get_visible_quoted_name; in help() through !is_hide_set
    sv = fx.body("clap_builder::output::help_template::HelpTemplate::spec_vals")
    fm = [c for c in sv.calls_to(r"Iterator::filter_map$") if re.search(r"get_possible_values", expr(sv, c.args[0]))]
    okq = any(any(re.search(r"get_visible_quoted_name$", q) for q in c.fnitems) for c in fm)
    res.check(okq, "R12.2", "hide|spec_vals-possible-values", sv.where(), "possible values listed via get_visible_quoted_name", "spec_vals lists possible values without the visibility filter")
    gv = fx.body("clap_builder::builder::possible_value::PossibleValue::get_visible_quoted_name")
    res.check(bool(gv.calls_to(r"PossibleValue::is_hide_set$")) or reads_field(gv, "hide"), "R12.2", "hide|get_visible_quoted_name", gv.where(), "get_visible_quoted_name tests is_hide_set", "get_visible_quoted_name ignores is_hide_set")
    hp = fx.body("clap_builder::output::help_template::HelpTemplate::help")
    pvf = [c for c in hp.calls_to(r"Iterator::filter$") if re.search(r"get_possible_values", expr(hp, c.args[0]))]
    unf = []
    for c in hp.calls():
        for a in c.args:
            e = expr(hp, a)
            for m in re.finditer(r"(\w+)\((?:into_)?iter\((?:deref\()?get_possible_values\(", e):
                if m.group(1) != "filter":
                    unf.append((c, e))
            if re.search(r"(?<!\w)(next|into_iter)\((?:deref\()?get_possible_values\(", e):
                unf.append((c, e))
    res.check(not unf, "R12.2", "hide|help-possible-values-all-filtered", unf[0][0].where() if unf else hp.where(), "every iteration over the possible values in help() goes through a filter",
              "help() iterates the possible values without a visibility filter: %s" % (unf[0][1][:100] if unf else ""))
    if not unf:
        res.floor("R12.2", "possible-value filters in help()", len(pvf), 2)
    for k, c in enumerate(pvf):
        res.check(any(cb.calls_to(r"PossibleValue::is_hide_set$") for cb in closure_bodies(fx, c)), "R12.2", "hide|help-possible-values|%d" % k, c.where(),
                  "filter(!is_hide_set)", "possible values in long help are not filtered by is_hide_set")
    # should_show_arg: false first on is_hide_set
    ssa = fx.body("clap_builder::output::help_template::should_show_arg")
    hs = ssa.calls_to(r"Arg::is_hide_set$")
    okh = False
    if hs:
        br = ssa.call_branch(hs[0])
        if br:
            # on the true edge the function returns false without consulting anything else
            blocks = ssa.reachable(br[1], without_blocks=(br[2],))
            others = [c for c in ssa.calls() if c.bb in blocks and c.bb != hs[0].bb and not sp_macro(c.sp)]
            consts = [s for i, j, s in ssa.stmts() if i in blocks and s["k"] == "assign" and s["place"] == 0 and s["rv"]["k"] == "use" and op_int(s["rv"]["op"]) == 0]
            okh = not others and bool(consts) and all(ssa.block_dominates(hs[0].bb, c.bb) for c in ssa.calls() if c is not hs[0] and not sp_macro(c.sp))
    res.check(okh, "R12.2", "hide|should_show_arg-first", ssa.where(), "should_show_arg returns false first when is_hide_set()",
              "should_show_arg consults other settings before/without is_hide_set (a hidden arg could be shown)")
    sss = fx.body("clap_builder::output::help_template::should_show_subcommand")
    res.check(bool(sss.calls_to(r"Command::is_hide_set$")), "R12.2", "hide|should_show_subcommand", sss.where(), "should_show_subcommand = !is_hide_set", "should_show_subcommand ignores is_hide_set")

    # ---------------- R12.2b the visibility helpers say `visible` only on the !hide edge
    gvq = fx.body("clap_builder::builder::possible_value::PossibleValue::get_visible_quoted_name")
    somes = [i for i, j, s_ in gvq.stmts() if s_["k"] == "assign" and s_["place"] == 0 and s_["rv"]["k"] == "agg" and s_["rv"].get("variant") == "Some"]
    res.check(bool(somes) and all(any(re.match(r"^F:(self\.hide|is_hide_set\(self\))$", g) for g in guard_strs(gvq, i)) for i in somes), "R12.2", "hide|get_visible_quoted_name-dominated", gvq.where(),
              "a name is returned only on the !hide edge", "get_visible_quoted_name returns a name on a path that does not test `hide` (%s)" % [guard_strs(gvq, i) for i in somes])
    # ---------------- R12.2c the copied help tree keeps the hidden flag of every subcommand
    csh = fx.body("clap_builder::builder::command::Command::_copy_subtree_for_help")
    hc = [c for c in csh.calls_to(r"Command::hide$") if expr(csh, c.args[1]) == "is_hide_set(self)"]
    require(fx, res, "R12.2", "hide|help-subtree-copies-hidden-flag", csh, r"Command::hide$", len(hc), 1, "_copy_subtree_for_help no longer copies the hidden flag: hidden subcommands are listed by `help`")
    for c in hc:
        bg = [g for g in guard_strs(csh, c.bb) if re.match(r"^[TFV!]", g)]
        res.check(not bg and not csh.must_pass([c.bb]), "R12.2", "hide|help-subtree-copies-hidden-flag", c.where(), "hide(self.is_hide_set()) on every path",
                  "_copy_subtree_for_help copies the hidden flag only under %s: other hidden subcommands appear in the output of the `help` subcommand" % bg)
    # ---------------- R12.5 the ordered map that collects a section cannot merge two arguments: its key is made of attributes the validity gate keeps unique
    osk = fx.body("clap_builder::output::help_template::option_sort_key")
    used = sorted(set(c.callee_q.rsplit("::", 1)[1] for t_ in tree(osk) for c in t_.calls() if c.callee_q and c.callee_q.startswith("clap_builder::builder::arg::Arg::") and not sp_macro(c.sp)))
    res.check(set(used) <= {"get_display_order", "get_id", "get_long", "get_short"} and "get_id" in used, "R12.5", "sort-key-unique", osk.where(), "sort key built from short / long / id (unique per command) + display order",
              "option_sort_key builds the key from %s: two visible arguments can get the same key and one of them is silently dropped from the section" % used)
    psk = fx.body("clap_builder::output::help_template::positional_sort_key")
    usedp = sorted(set(c.callee_q.rsplit("::", 1)[1] for t_ in tree(psk) for c in t_.calls() if c.callee_q and c.callee_q.startswith("clap_builder::builder::arg::Arg::")))
    res.check(usedp == ["get_index"], "R12.5", "positional-key-unique", psk.where(), "positional key = index (unique)", "positional_sort_key builds the key from %s" % usedp)
    for c in wa.calls_to(r"BTreeMap::insert$"):
        k = expr(wa, c.args[1])
        res.check(re.match(r"^\?\(next\(", k) is not None or "sort_key" in k, "R12.5", "map-key-from-sort-key", c.where(), "section map keyed by the sort-key function of the item", "write_args keys its section map with %s" % k[:80])
    # ---------------- R12.4 listing filters consult nothing but visibility / sectioning predicates
    nlf = listing_filters(fx, res, "R12.4", r"^clap_builder::output::(help_template|usage)::")
    res.floor("R12.4", "listing filters in help_template/usage", nlf, 15)
    # ---------------- R12.1b checked lemmas behind audit reasons of the rendering code
    import lemmas
    lemmas.use_long_pv_implies_visible_value(fx, res, "R12.1")
    lemmas.flat_map_lockstep(fx, res, "R12.1")
    lemmas.positionals_have_index(fx, res, "R12.1")
    # ---------------- R12.6 the help-related settings documented as tree-wide are stored as global settings (shared rule R5.8)
    from rules.c05 import global_setters
    global_setters(fx, res, "R12.6", ["disable_help_flag", "disable_help_subcommand", "disable_version_flag", "hide_possible_values", "next_line_help", "disable_colored_help"])
    # ---------------- R12.3b `help <sub>` always renders the LONG help of the subcommand it names
    phs = fx.body("clap_builder::parser::parser::Parser::parse_help_subcommand")
    hes = phs.calls_to(r"Parser::help_err$")
    require(fx, res, "R12.3", "help-subcommand-renders-help", phs, r"Parser::help_err$", len(hes), 1, "parse_help_subcommand no longer renders help")
    for c in hes:
        res.check((op_int(c.args[1]) == 1 or expr(phs, c.args[1]) in ("1", "true")) and expr(phs, c.args[0]).startswith("new("), "R12.3", "help-subcommand-long-help", c.where(), "help_err(true) on a parser for the named subcommand",
                  "`help <sub>` renders with use_long = %s: whether long help is shown depends on something other than the request itself (the level the word `help` was typed at)" % expr(phs, c.args[1])[:60])
    # ---------------- R12.3 help for the current level
    he = fx.body("clap_builder::parser::parser::Parser::help_err")
    okc = all(re.match(r"^self\.cmd", expr(he, c.args[0])) for c in he.calls_to(r"Command::write_help_err$", r"error::Error::display_help$"))
    res.check(okc and len(he.calls_to(r"Command::write_help_err$")) == 1, "R12.3", "help-level|" + he.q, he.where(), "help_err renders self.cmd (the level the flag was seen at)",
              "help_err renders a different command than the parser's current one")
