"""C04 — typed values are exactly what the value parser's language admits."""
import re
from rulekit import *

EXPLANATION = (
    "R4.1 ranged integers never wrap: in RangedI64ValueParser/RangedU64ValueParser::parse_ref there is no `as` cast (HIR) and no "
    "IntToInt cast (MIR); the Ok payload is the result of TryInto::try_into applied to the result of str::parse::<i64|u64>; the "
    "try_into is reached only on the true edge of RangeBounds::contains(&value); the two siblings have the same call "
    "signature. R4.1b range() narrowing keeps an existing bound when the new range is unbounded on that side (both siblings, "
    "sibling signature cross-check). R4.2 factory table: the eight integer ValueParserFactory impls have Parser = "
    "RangedI64ValueParser<Self> (u8..i32, i64) / RangedU64ValueParser (u64) and build the range Self::MIN..=Self::MAX "
    "(evaluated constants compared with the type's numeric limits). R4.3 boolean literal tables: evaluated TRUE_LITERALS / "
    "FALSE_LITERALS equal the documented sets, are disjoint and lower-case; str_to_bool lower-cases before lookup; "
    "BoolValueParser accepts exactly \"true\"/\"false\"; the advertised possible values are built from the same constants. "
    "R4.4 PossibleValue::matches compares against get_name_and_aliases() and uses eq_ignore_case only on the ignore_case edge. "
    "R4.5 typed access: every unwrap_downcast_{ref,into}/downcast_ref().expect in arg_matches.rs is dominated by "
    "try_get_arg_t/try_remove_arg_t in the same function; in try_remove_arg_t every path from remove_entry to an Err return "
    "re-inserts the entry. R4.5b MatchedArg::infer_type_id answers with the declared type id first (values only as a fallback). NOT decided: the accepted language of str::parse::<i64> (std), exhaustive boundary behaviour."
    ' R4.5c: infer_type_id scans the stored values when no type is recorded (group entries).'
    " R4.A accessor layer (lib/accessors.py): for the is_*_set / get_* accessors this property's rules name — the bool builder sets and unsets one flag on the right edges and the predicate reads that same flag; builder scope (global/local) as in audit/setting_scope.tsv; no two predicates/builders share a flag; setting/unset_setting/global_setting/is_set forward to the right flag word, the flag word is |=bit / &=!bit / &bit!=0 with bit = 1<<discriminant, _propagate_subcommand hands g_settings to the child's settings and g_settings; plain field getters return their field."
)
TRUSTED = ["rustc MIR + HIR", "clapfacts", "std str::parse / TryFrom for integers"]
ASSUMPTIONS = ["user-defined TypedValueParser impls are outside this property"]

VP = "clap_builder::builder::value_parser::"
LIMITS = {"u8": (0, 255), "i8": (-128, 127), "u16": (0, 65535), "i16": (-32768, 32767), "u32": (0, 4294967295), "i32": (-2147483648, 2147483647),
          "u64": (0, 18446744073709551615), "i64": (-9223372036854775808, 9223372036854775807)}


def signature(b, norm):
    out = []
    for x in tree(b):
        for c in x.calls():
            if sp_macro(c.sp) in ("debug_assert", "debug_assert_eq", "debug_assert_ne", "debug"):
                continue
            q = c.callee_q or c.decl_q or "?"
            out.append(norm("%s(%s)" % (q.rsplit("::", 1)[-1], ",".join(expr(c.body, a) for a in c.args))))
    return sorted(out)


def run(ctx):
    fx, res = ctx.fx, ctx.res
    cb = fx.crate("clap_builder")
    # closure numbering and promoted-constant slots are positions inside one function, not behaviour
    norm = lambda s: re.sub(r"\{closure#\d+\}", "{closure}", re.sub(r"promoted\[\d+\]", "promoted", re.sub(r"\b[iu]64\b", "N64", re.sub(r"Ranged[IU]64", "RangedN64", s))))
    sigs = {}
    for kind, ity in (("I64", "i64"), ("U64", "u64")):
        b = fx.body("<%sRanged%sValueParser as %sTypedValueParser>::parse_ref" % (VP, kind, VP))
        casts = [c for c in cb.casts if cb.q[c["owner"]] == b.q]
        mcasts = [s for x in tree(b) for i, j, s in x.stmts() if s["k"] == "assign" and s["rv"]["k"] == "cast" and s["rv"]["ck"] in ("IntToInt", "FloatToInt", "IntToFloat")]
        res.check(not casts and not mcasts, "R4.1", "no-cast|" + kind, b.where(), "no `as`/IntToInt cast in parse_ref", "Ranged%sValueParser::parse_ref narrows with a cast (%s): values would wrap instead of being rejected" % (kind, casts or len(mcasts)))
        ti = b.calls_to(r"TryInto<[^>]*>>?::try_into$|TryInto>?::try_into$|TryFrom<[^>]*>>?::try_from$|TryFrom>?::try_from$")
        res.floor("R4.1", "try_into in Ranged%s parse_ref" % kind, len(ti), 1)
        for c in ti:
            e = expr(b, c.args[0])
            okp = re.search(r"parse\(", e) is not None
            # is parse::<i64|u64>?
            pr = [p for p in b.calls_to(r"^str::parse$") if p.targs and p.targs[0] == ity]
            res.check(okp and len(pr) == 1, "R4.1", "narrow-from-parse|" + kind, c.where(), "try_into(parse::<%s>(text))" % ity, "narrowing input is %s; parse::<%s> calls: %d" % (e[:80], ity, len(pr)))
            okg = has_bool(b, c.bb, "T", r"^contains\(self\.bounds,") or has_bool(b, c.bb, "F", r"^Not\(contains\(self\.bounds")
            res.check(okg, "R4.1", "range-check-first|" + kind, c.where(), "narrowing only for values inside the declared range", "value is narrowed/accepted without the bounds.contains(&value) check (guards %s)" % guard_strs(b, c.bb)[-3:])
        # Ok payload derives from the try_into result
        oks = [s for i, j, s in b.stmts() if s["k"] == "assign" and s["place"] == 0 and s["rv"]["k"] == "agg" and s["rv"].get("variant") == "Ok"]
        res.floor("R4.1", "Ok construction in Ranged%s parse_ref" % kind, len(oks), 1)
        for s in oks:
            e = expr(b, s["rv"]["ops"][0])
            res.check(re.search(r"try_into\(|try_from\(", e) is not None, "R4.1", "ok-from-try_into|" + kind, "%s in %s" % (sp_str(s["sp"]), b.q), "Ok(%s)" % e[:60], "Ok payload does not come from the checked narrowing: %s" % e[:100])
        sigs[kind] = signature(b, norm)
    res.check(sigs["I64"] == sigs["U64"], "R4.1", "siblings-agree|parse_ref", "builder/value_parser.rs", "RangedI64/RangedU64 parse_ref perform the same steps",
              "RangedI64ValueParser::parse_ref and RangedU64ValueParser::parse_ref differ: only-in-I64 %s only-in-U64 %s" % (
                  [x for x in sigs["I64"] if x not in sigs["U64"]][:3], [x for x in sigs["U64"] if x not in sigs["I64"]][:3]))
    # R4.1b range()
    rs = {}
    for kind in ("I64", "U64"):
        b = fx.body(VP + "Ranged%sValueParser::range" % kind)
        rs[kind] = signature(b, norm)
        keep = [c for c in b.calls_to(r"RangeBounds<[^>]*>>?::(start_bound|end_bound)$|RangeBounds>?::(start_bound|end_bound)$") if re.match(r"^self\.bounds", expr(b, c.args[0]))]
        names = sorted(c.callee_q.rsplit("::", 1)[1] for c in keep)
        res.check(names == ["end_bound", "start_bound"], "R4.1", "range-keeps-existing-bound|" + kind, b.where(), "unbounded side keeps self.bounds' bound",
                  "Ranged%sValueParser::range no longer falls back to the existing start/end bound when the new range is unbounded on that side (reads %s of self.bounds)" % (kind, names))
    res.check(rs["I64"] == rs["U64"], "R4.1", "siblings-agree|range", "builder/value_parser.rs", "RangedI64/RangedU64 range() perform the same steps",
              "RangedI64ValueParser::range and RangedU64ValueParser::range differ: only-in-I64 %s only-in-U64 %s" % ([x for x in rs["I64"] if x not in rs["U64"]][:3], [x for x in rs["U64"] if x not in rs["I64"]][:3]))

    # ---- R4.2 factory table
    impls = {im["self_ty"]: im for im in cb.impls if im["trait"] and im["trait"].endswith("ValueParserFactory")}
    for t, (lo, hi) in LIMITS.items():
        im = impls.get(t)
        if im is None:
            res.violation("R4.2", "factory|" + t, "builder/value_parser.rs", "no ValueParserFactory impl for %s" % t)
            continue
        pty = [i.get("ty") for i in im["items"] if i["name"] == "Parser"][0]
        want = VP + ("RangedU64ValueParser" if t == "u64" else "RangedI64ValueParser" if t == "i64" else "RangedI64ValueParser<%s>" % t)
        res.check(pty == want, "R4.2", "factory-type|" + t, sp_str(im["span"]), "Parser = %s" % pty.rsplit("::", 1)[1], "ValueParserFactory for %s uses %s, expected %s" % (t, pty, want))
        b = fx.body("<%s as %sValueParserFactory>::value_parser" % (t, VP))
        rg = b.calls_to(r"Ranged[IU]64ValueParser::range$")
        if t in ("u64", "i64"):
            res.check(not rg and bool(b.calls_to(r"Ranged[IU]64ValueParser::new$")), "R4.2", "factory-range|" + t, b.where(), "full %s range (no narrowing)" % t, "value_parser!(%s) narrows the range" % t)
            continue
        require(fx, res, "R4.2", "factory-range|" + t, b, r"Ranged[IU]64ValueParser::range$", len(rg), 1, "value_parser!(%s) no longer restricts the parser to the type's range" % t)
        for c in rg:
            e = expr(b, c.args[1])
            m = re.fullmatch(r"new\(into\((-?\d+)\),into\((-?\d+)\)\)", e)
            ok = m is not None and (int(m.group(1)), int(m.group(2))) == (lo, hi) and bool(b.calls_to(r"RangeInclusive::new$|RangeInclusive<[^>]*>::new$"))
            res.check(ok, "R4.2", "factory-range|" + t, c.where(), "range = %s::MIN..=%s::MAX (%d..=%d)" % (t, t, lo, hi), "value_parser!(%s) declares range %s, expected %d..=%d" % (t, e, lo, hi))

    # ---- R4.3 boolean tables
    T = const_val_list(fx.const("util::str_to_bool::TRUE_LITERALS")["val"])
    Fv = const_val_list(fx.const("util::str_to_bool::FALSE_LITERALS")["val"])
    res.check(T == ["y", "yes", "t", "true", "on", "1"], "R4.3", "true-literals", "util/str_to_bool.rs", "TRUE_LITERALS = %s" % T, "TRUE_LITERALS = %s (documented: y, yes, t, true, on, 1)" % T)
    res.check(Fv == ["n", "no", "f", "false", "off", "0"], "R4.3", "false-literals", "util/str_to_bool.rs", "FALSE_LITERALS = %s" % Fv, "FALSE_LITERALS = %s (documented: n, no, f, false, off, 0)" % Fv)
    res.check(not (set(T or []) & set(Fv or [])) and all(x == x.lower() for x in (T or []) + (Fv or [])), "R4.3", "tables-disjoint-lowercase", "util/str_to_bool.rs", "disjoint, lower-case", "boolean literal tables overlap or contain upper-case entries")
    sb = fx.body("clap_builder::util::str_to_bool::str_to_bool")
    lc = sb.calls_to(r"str::to_lowercase$")
    conts = sb.calls_to(r"\[T\]::contains$")
    okl = len(lc) == 1 and len(conts) == 2 and all(re.search(r"to_lowercase\(", expr(sb, c.args[1])) for c in conts)
    res.check(okl, "R4.3", "str_to_bool-lowercases", sb.where(), "lookup on the lower-cased input", "str_to_bool no longer lower-cases before both lookups")
    # the ONLY normalisation between the input and the table lookup is case folding (documented: case-insensitive literals)
    keys = sorted(set(expr(sb, c.args[1]) for c in conts))
    keys = sorted(set(strip_transparent(k) for k in keys))
    res.check(all(k == "to_lowercase(val)" for k in keys) and bool(keys), "R4.3", "str_to_bool-only-case-folding", sb.where(), "table key = to_lowercase(input)",
              "str_to_bool looks up %s: the input is normalised by more than case folding, so strings that are not documented literals are accepted" % keys)
    hay = sorted(expr(sb, c.args[0]).rsplit("::", 1)[-1].strip(")") for c in conts)
    res.check(hay == ["FALSE_LITERALS", "TRUE_LITERALS"], "R4.3", "str_to_bool-tables", sb.where(), "looks up TRUE_LITERALS then FALSE_LITERALS", "str_to_bool consults %s" % hay)
    # polarity: TRUE_LITERALS hit -> Some(true)
    for c in conts:
        br = sb.call_branch(c)
        tbl = expr(sb, c.args[0])
        if br:
            vals = [expr(sb, s["rv"]["ops"][0]) for i, j, s in sb.stmts() if i in sb.reachable(br[1], without_blocks=(br[2],)) and s["k"] == "assign" and s["place"] == 0 and s["rv"]["k"] == "agg" and s["rv"].get("variant") == "Some"]
            want = "1" if "TRUE" in tbl else "0"
            res.check(bool(vals) and vals[0] == want, "R4.3", "str_to_bool-polarity|" + ("true" if want == "1" else "false"), c.where(), "%s -> Some(%s)" % (tbl.rsplit("::", 1)[-1], want), "a %s hit yields %s" % (tbl.rsplit("::", 1)[-1], vals))
    bp = fx.body("<%sBoolValueParser as %sTypedValueParser>::parse_ref" % (VP, VP))
    lits = sorted(set(m_.group(1) for c in tree_calls(bp, r"PartialEq.*::eq$", r"::eq$") for a in c.args for m_ in [re.fullmatch(r"new\('(.*)'\)", expr(c.body, a))] if m_))
    res.check(lits == ["false", "true"], "R4.3", "bool-parser-literals", bp.where(), "BoolValueParser accepts exactly \"true\" / \"false\"", "BoolValueParser compares against %s" % lits)
    for nm, want in (("BoolishValueParser", ["FALSE_LITERALS", "TRUE_LITERALS"]), ("FalseyValueParser", ["FALSE_LITERALS", "TRUE_LITERALS"])):
        b = fx.body(VP + nm + "::possible_values")
        refs = sorted(set(re.findall(r"(TRUE_LITERALS|FALSE_LITERALS)", " ".join(expr(x, a) for x in tree(b) for c in x.calls() for a in c.args) + " ".join(str(s) for x in tree(b) for i, j, s in x.stmts()))))
        res.check(refs == want, "R4.3", "advertised-values|" + nm, b.where(), "%s advertises the same literal tables" % nm, "%s::possible_values built from %s" % (nm, refs))
    for nm in ("BoolishValueParser", "FalseyValueParser"):
        b = fx.body("<%s%s as %sTypedValueParser>::parse_ref" % (VP, nm, VP))
        res.check(bool(tree_calls(b, r"str_to_bool::str_to_bool$")), "R4.3", "uses-str_to_bool|" + nm, b.where(), "%s parses with str_to_bool" % nm, "%s no longer parses with str_to_bool" % nm)

    # ---- R4.4 PossibleValue::matches
    pm = fx.body("clap_builder::builder::possible_value::PossibleValue::matches")
    gn = tree_calls(pm, r"PossibleValue::get_name_and_aliases$")
    eic = tree_calls(pm, r"eq_ignore_case$", r"^unicase::eq$", r"eq_ignore_ascii_case$")
    res.check(len(gn) >= 1, "R4.4", "names-and-aliases", pm.where(), "matches() compares against get_name_and_aliases()", "PossibleValue::matches no longer consults names and aliases")
    okc = bool(eic) and all(has_bool(pm, c.bb, "T", r"^ignore_case$") or c.body is not pm and any(has_bool(pm, cc.bb, "T", r"^ignore_case$") for cc in pm.calls() if c.body.q in cc.closures) for c in eic)
    plain = [c for c in tree_calls(pm, r"PartialEq.*::eq$") if not sp_macro(c.sp)]
    okp = bool(plain) and all(has_bool(pm, c.bb, "F", r"^ignore_case$") or c.body is not pm and any(has_bool(pm, cc.bb, "F", r"^ignore_case$") for cc in pm.calls() if c.body.q in cc.closures) for c in plain)
    res.check(okc and okp, "R4.4", "case-folding-only-when-asked", pm.where(), "eq_ignore_case only when ignore_case, exact comparison otherwise", "PossibleValue::matches folds case (or not) under the wrong condition")

    # ---- R4.4b/c membership test of the possible-value parsers ranges over ALL declared values (hidden ones are declared too)
    pvp = fx.body("<%sPossibleValuesParser as %sTypedValueParser>::parse" % (VP, VP))
    anyc = [c for c in pvp.calls_to(r"Iterator>?::(any|all|find|position)$")]
    memb = [c for c in anyc if any(cb.calls_to(r"PossibleValue::matches$") for cb in closure_bodies(fx, c))]
    if not memb:
        res.violation("R4.4", "pvp-membership", pvp.where(), "PossibleValuesParser::parse no longer decides by PossibleValue::matches over its values")
    for c in memb:
        src = expr(pvp, c.args[0])
        cb = [x for x in closure_bodies(fx, c) if x.calls_to(r"PossibleValue::matches$")][0]
        mc = cb.calls_to(r"PossibleValue::matches$")[0]
        pm_ = cb.locals[2][1] if len(cb.locals) > 2 and cb.locals[2][1] else "arg2"
        form = c.callee_q.rsplit("::", 1)[1]
        # `any(p)` and `find(p).is_some()` / `position(p).is_some()` are the same test
        as_bool = form == "any" or (form in ("find", "position") and any(expr(pvp, x.args[0]).startswith(form + "(iter(self.0)") for x in pvp.calls_to(r"Option::is_some$")))
        okm = expr(cb, 0) in ("matches(%s,arg1.0,arg1.1)" % pm_, "matches(arg2,arg1.0,arg1.1)") and as_bool
        res.check(src == "iter(self.0)" and okm, "R4.4", "pvp-membership", c.where(), "accepted iff any declared value matches(value, ignore_case)",
                  "PossibleValuesParser accepts by `%s` over %s with test %s: the admitted language is no longer exactly the declared names and aliases" % (c.callee_q.rsplit("::", 1)[1], src[:80], expr(cb, 0)[:60]))
        ic = expr(pvp, c.args[1])
        res.check(re.search(r"unwrap_or\(map\(arg,closure\(\)\),0\)\)$", ic) is not None and any(x.calls_to(r"Arg::is_ignore_case_set$") for cc in pvp.calls_to(r"Option::map$") for x in closure_bodies(fx, cc)),
                  "R4.4", "pvp-ignore-case-source", c.where(), "ignore_case = arg.is_ignore_case_set() (false without an arg)", "case folding is requested by %s" % ic[-80:])
        oks_ = [i for i, j, s_ in pvp.stmts() if s_["k"] == "assign" and s_["place"] == 0 and s_["rv"]["k"] == "agg" and s_["rv"].get("variant") == "Ok"]
        MEMB = r"^(any\(iter\(self\.0\)|is_some\((find|position)\(iter\(self\.0\))"
        res.check(bool(oks_) and all(has_bool(pvp, i, "T", MEMB) for i in oks_) and all(has_bool(pvp, e.bb, "F", MEMB) for e in pvp.calls_to(r"error::Error::invalid_value$")),
                  "R4.4", "pvp-polarity", pvp.where(), "Ok on a match, invalid_value otherwise", "PossibleValuesParser returns Ok / invalid_value on the wrong edge of the membership test")
    evp = fx.body("<%sEnumValueParser as %sTypedValueParser>::parse_ref" % (VP, VP))
    fnd = [c for c in evp.calls_to(r"Iterator>?::(find|any|position|find_map)$") if any(cb.calls_to(r"PossibleValue::matches$") for cb in closure_bodies(fx, c))]
    if not fnd:
        res.violation("R4.4", "enum-membership", evp.where(), "EnumValueParser::parse_ref no longer selects the variant by PossibleValue::matches")
    for c in fnd:
        cb = [x for x in closure_bodies(fx, c) if x.calls_to(r"PossibleValue::matches$")][0]
        e0 = expr(cb, 0)
        res.check(expr(evp, c.args[0]) == "iter(value_variants())" and re.fullmatch(r"matches\(expect\(to_possible_value\(\w+\),.*\),arg1\.0,arg1\.1\)", e0) is not None, "R4.4", "enum-membership", c.where(),
                  "variant = first of value_variants() whose possible value matches(value, ignore_case)", "EnumValueParser selects over %s with %s" % (expr(evp, c.args[0])[:60], e0[:80]))

    # ---- R4.5 typed access
    AM = "clap_builder::parser::matches::arg_matches::ArgMatches::"
    n = 0
    for b in fx.bodies(r"^" + re.escape(AM)):
        if b.kind == "Closure":
            continue
        uses = []
        for x in tree(b):
            for c in x.calls():
                if c.is_(r"AnyValue::downcast_ref$", r"AnyValue::downcast_into$") or any(re.search(r"unwrap_downcast_(ref|into)$", q) for q in c.fnitems):
                    uses.append(c)
            # fn items reified to fn pointers: `.map(unwrap_downcast_ref)`
            for i, j, st in x.stmts():
                if st["k"] == "assign":
                    for o in rv_operands(st["rv"]):
                        if o and "fn" in o and re.search(r"unwrap_downcast_(ref|into)$", x.crate.q[o["fn"]]):
                            uses.append(Call(x, i, {"callee": o["fn"], "decl": o["fn"], "args": [], "dest": 0, "target": None, "sp": st["sp"], "rk": "item"}))
        for c in uses:
            n += 1
            guard = tree_calls(b, r"ArgMatches::try_get_arg_t$", r"ArgMatches::try_remove_arg_t$", r"ArgMatches::try_get_arg_t_mut$")
            res.check(bool(guard), "R4.5", "downcast-after-type-check|%s" % b.q.rsplit("::", 1)[1], c.where(), "downcast in a function that verified the type via try_*_arg_t",
                      "%s downcasts stored values without try_get_arg_t/try_remove_arg_t::<T> in the same function" % b.q.rsplit("::", 1)[1])
    res.floor("R4.5", "unchecked downcasts in arg_matches.rs", n, 6)
    tr = fx.body(AM + "try_remove_arg_t")
    rm = tr.calls_to(r"remove_entry$")
    ins = tr.calls_to(r"FlatMap<[^>]*>::insert$|FlatMap::insert$")
    res.floor("R4.5", "remove_entry in try_remove_arg_t", len(rm), 1)
    errs = [i for i, j, s in tr.stmts() if s["k"] == "assign" and s["place"] == 0 and s["rv"]["k"] == "agg" and s["rv"].get("variant") == "Err"]
    # Err returns reachable after the removal must pass the re-insert
    after = [i for i in errs if rm and rm[0].target is not None and i in tr.reachable(rm[0].target)]
    ok = bool(rm) and bool(after) and bool(ins) and all(i not in tr.reachable(rm[0].target, without_blocks=tuple(c.bb for c in ins)) for i in after)
    # any early-return propagation (ok!/?) after the removal is also an Err path
    prop = [c for c in tr.calls() if rm and c.bb in tr.reachable(rm[0].target if rm[0].target is not None else 0) and c.is_(r"ArgMatches::verify_arg_t$", r"Try>?::branch$")]
    res.check(ok and not prop, "R4.5", "failed-remove-reinserts", tr.where(), "every Err path after remove_entry re-inserts the entry",
              "try_remove_arg_t can return Err after taking the entry out without putting it back (stored values are lost on a wrong-type remove)")
    ex = [e for e in errs if e not in after]
    res.ok("R4.5", "pre-removal-errors", tr.where(), "%d Err path(s) before the removal leave the map untouched" % len(ex))


    # ---- R4.5b the declared value type decides typed access even when no value is stored
    iti = fx.body("clap_builder::parser::matches::matched_arg::MatchedArg::infer_type_id")
    e0 = expr(iti, {"cp": 0})
    defs0 = [expr(iti, d[3]["op"]) if isinstance(d[3], dict) and d[3]["k"] == "use" else "" for d in iti.def_sites(0)]
    uses_declared = bool(iti.calls_to(r"MatchedArg::type_id$")) and ("type_id(self)" in e0 or any("type_id(self)#Some.0" in x for x in defs0))
    res.check(uses_declared, "R4.5", "declared-type-first", iti.where(), "infer_type_id answers with the argument's declared type id when there is one",
              "MatchedArg::infer_type_id no longer consults the declared type (result: %s): for an argument present without values a wrong-type get returns Ok(None) and a wrong-type remove deletes the entry" % e0[:90])

    # ---- R4.5c typed access on an entry without a recorded type (groups) still checks the stored values' types
    it = fx.body("clap_builder::parser::matches::matched_arg::MatchedArg::infer_type_id")
    vf = [c for t in tree(it) for c in t.calls_to(r"MatchedArg::vals_flatten$")]
    require(fx, res, "R4.5", "infer_type_id-scans-values", it, r"MatchedArg::vals_flatten$", len(vf), 1,
            "MatchedArg::infer_type_id no longer looks at the stored values when no type is recorded (group entries): typed access with the wrong type is not rejected with Downcast — it panics in the unwrap of the downcast or removes the entry")
    if vf:
        ne = [c for t in tree(it) for c in t.calls_to(r"PartialEq(<[^>]*>)?>?::ne$", r"PartialEq(<[^>]*>)?>?::eq$")]
        res.check(bool(ne) and bool([c for t in tree(it) for c in t.calls_to(r"AnyValue::type_id$")]), "R4.5", "infer_type_id-scans-values", it.where(), "a stored value of another type makes infer_type_id report that type",
                  "infer_type_id no longer compares the stored values' types with the requested one")

