"""C10 — rejections are justified, correctly classified, and carry the CLI exit contract."""
import re
from rulekit import *
import vset

EXPLANATION = (
    "Decides structural necessary conditions of C10 on the type-checked MIR of clap_builder: "
    "R10.1 (complete, finite): for every ErrorKind variant the composed functions Error::stream -> use_stderr -> "
    "exit_code are evaluated by variant-set abstract interpretation; stdout/0 must be produced for exactly "
    "{DisplayHelp, DisplayVersion} and stderr/2 for every other kind. R10.2: every Error::<ctor> hands a constant "
    "ErrorKind to Error::new/for_app; the constructor->kind table is checked against the name-derived / documented table. "
    "R10.3: in Parser::verify_num_args every error constructor is guarded by the comparison that justifies it "
    "(operator and operand roles). R10.4: did_you_mean only returns strings taken from the iterated candidates and its "
    "call sites pass iterators over defined names. R10.4b the `For more information, try '<x>'` hint names something that exists: error::format::get_help_flag returns `--help` only when the help flag is not disabled, a user help flag when one is defined, `help` only when the command has subcommands and the help subcommand is not disabled. R10.7 MissingRequiredArgument names only arguments that are required: the display completion of preceding positionals is bounded by highest_index, which is updated only on the !is_last_set edge. R10.5 (necessary for `valid lines are not rejected` by the count check): "
    "in Parser::parse the pending values of a positional are resolved before the next positional token unless that token "
    "belongs to the same argument AND the argument is multi-valued (is_multiple_values_set) — pooling values of separate "
    "occurrences of a single-valued positional would be counted as one occurrence by verify_num_args. R10.6 (sibling "
    "agreement inside parse_short_arg): the allow_hyphen_values-positional shortcut fires on exactly the clusters the flag "
    "loop would reject, i.e. when ANY character is not a defined short. NOT decided: that inputs breaking no rule are never rejected, nor "
    "that each runtime rejection names a rule really broken (needs execution over inputs)."
    ' R10.4d (shared with R8.3): what possible_subcommand may answer with.'
    " R10.A accessor layer (lib/accessors.py): for the is_*_set / get_* accessors this property's rules name — the bool builder sets and unsets one flag on the right edges and the predicate reads that same flag; builder scope (global/local) as in audit/setting_scope.tsv; no two predicates/builders share a flag; setting/unset_setting/global_setting/is_set forward to the right flag word, the flag word is |=bit / &=!bit / &bit!=0 with bit = 1<<discriminant, _propagate_subcommand hands g_settings to the child's settings and g_settings; plain field getters return their field."
)
TRUSTED = ["rustc type-check + MIR construction (nightly)", "clapfacts driver", "lib/vset.py abstract interpreter",
           "derived PartialEq on fieldless enums compares discriminants"]
ASSUMPTIONS = ["process exit code is Error::exit_code (Error::exit calls process::exit(self.exit_code()) — checked as R10.1e)",
               "strsim::jaro is a pure similarity score"]

STDOUT_KINDS = {"DisplayHelp", "DisplayVersion"}

# constructor -> kind where the name is not simply the snake_case of the kind (reason: documentation of the kind)
CTOR_TABLE_EXTRA = {
    "subcommand_conflict": "ArgumentConflict",      # args_conflicts_with_subcommands is documented as ArgumentConflict
    "unrecognized_subcommand": "InvalidSubcommand",  # ErrorKind::InvalidSubcommand doc: unrecognised subcommand
    "unnecessary_double_dash": "UnknownArgument",    # a subcommand name after `--` is an unknown *argument*
    "display_help_error": "DisplayHelpOnMissingArgumentOrSubcommand",
    "missing_required_argument": "MissingRequiredArgument",
}


def camel(s):
    return "".join(p.capitalize() for p in s.split("_"))


def run(ctx):
    fx, res = ctx.fx, ctx.res
    kinds = enum_variants(fx, "error::kind::ErrorKind")
    res.floor("R10.1", "ErrorKind variants", len(kinds), 17)
    KIND = "clap_builder::error::kind::ErrorKind"
    b_stream = fx.body("clap_builder::error::Error::stream")
    b_use = fx.body("clap_builder::error::Error::use_stderr")
    b_exit = fx.body("clap_builder::error::Error::exit_code")
    b_kind = fx.body("clap_builder::error::Error::kind")

    # R10.1a: Error::kind returns the stored kind field
    e0 = None
    for i, j, s in b_kind.stmts():
        if s["k"] == "assign" and s["place"] == 0:
            e0 = expr(b_kind, s["place"], 4) if False else expr(b_kind, s["rv"]["op"] if s["rv"]["k"] == "use" else s["rv"].get("place", 0))
    res.check(e0 is not None and re.search(r"^self\.inner\b.*\.kind$", e0), "R10.1", "kind-getter|" + b_kind.q, b_kind.where(),
              "Error::kind returns self.inner.kind (%s)" % e0, "Error::kind does not return the stored kind: %s" % e0)

    # R10.1b: table per variant
    for vi, name in enumerate(kinds):
        def oracle(c, args, run, vi=vi, name=name):
            if c.callee_q == b_kind.q:
                return frozenset([("a", KIND, vi, name, ())])
            return None
        eng = vset.Engine(fx, oracle=oracle)
        st = vset.variants_in(eng.analyze(b_stream).ret)
        us = eng.analyze(b_use).ret
        ec = eng.analyze(b_exit).ret
        want_stream = {"Stdout"} if name in STDOUT_KINDS else {"Stderr"}
        want_use = vset.av_int(0 if name in STDOUT_KINDS else 1)
        want_exit = vset.av_int(0 if name in STDOUT_KINDS else 2)
        ok = (st == want_stream and us == want_use and ec == want_exit)
        res.check(ok, "R10.1", "table|%s" % name, b_stream.where(),
                  "%s -> stream=%s use_stderr=%s exit_code=%s" % (name, st, vset.fmt_av(us), vset.fmt_av(ec)),
                  "%s -> stream=%s use_stderr=%s exit_code=%s; expected %s/%s/%s" % (
                      name, st, vset.fmt_av(us), vset.fmt_av(ec), want_stream, vset.fmt_av(want_use), vset.fmt_av(want_exit)))

    # R10.1c: constants
    for cname, want in (("USAGE_CODE", 2), ("SUCCESS_CODE", 0)):
        cv = fx.const("clap_builder::util::" + cname)
        v = const_val_list(cv["val"])
        res.check(v == want, "R10.1", "const|" + cname, sp_str(cv["span"]), "%s = %r" % (cname, v), "%s = %r, expected %d" % (cname, v, want))

    # R10.1e: Error::exit exits with exit_code(); Error::print writes to the stream chosen by stream()
    b_exitfn = fx.body("clap_builder::error::Error::exit")
    ex = b_exitfn.calls_to(r"process::exit$")
    okx = bool(ex) and all(re.search(r"^exit_code\(", expr(b_exitfn, c.args[0])) for c in ex)
    res.check(okx, "R10.1", "exit-uses-exit_code|" + b_exitfn.q, b_exitfn.where(),
              "process::exit(%s)" % ([expr(b_exitfn, c.args[0]) for c in ex]), "Error::exit does not pass exit_code() to process::exit")

    # R10.2 constructor -> kind
    ctors = fx.bodies(r"^clap_builder::error::Error::[a-z_0-9]+$")
    found = {}
    for b in ctors:
        name = b.q.rsplit("::", 1)[1]
        for c in b.calls_to(r"clap_builder::error::Error::(new|for_app|raw)$"):
            if not c.args:
                continue
            vs = agg_variants(b, c.args[0])
            if vs:
                found.setdefault(name, (b, set()))[1].update(vs)
    # delegating constructors (empty_value -> invalid_value)
    for b in ctors:
        name = b.q.rsplit("::", 1)[1]
        if name in found:
            continue
        for c in b.calls():
            if c.callee_q and c.callee_q.startswith("clap_builder::error::Error::"):
                tgt = c.callee_q.rsplit("::", 1)[1]
                if tgt in found and tgt != name:
                    found[name] = (b, set(found[tgt][1]))
    res.floor("R10.2", "Error constructors with a constant kind", len(found), 19)
    for name, (b, vs) in sorted(found.items()):
        want = CTOR_TABLE_EXTRA.get(name)
        if want is None and camel(name) in kinds:
            want = camel(name)
        if name == "empty_value":
            want = "InvalidValue"   # an empty value is an invalid value (ErrorKind::InvalidValue docs)
        if want is None:
            res.note("constructor %s has no name-derived kind; kinds=%s (not judged)" % (name, sorted(vs)))
            continue
        res.check(vs == {want}, "R10.2", "ctor-kind|" + name, b.where(), "%s -> %s" % (name, sorted(vs)),
                  "%s constructs %s, expected %s" % (name, sorted(vs), want))

    # R10.3 verify_num_args guard -> constructor pairing
    b = fx.body("Parser::verify_num_args")
    LEN = r"^len\("
    pairs = {
        "empty_value": [("Lt", r"^0$", r"^min_values\("), ("Eq", LEN, r"^0$")],
        "wrong_number_of_values": [("Ne", r"^num_values\(.*#Some\.0$", LEN)],
        "too_few_values": [("Lt", LEN, r"^min_values\(")],
        "too_many_values": [("Lt", r"^max_values\(", LEN)],
    }
    seen = 0
    for ctor, reqs in pairs.items():
        cs = b.calls_to(r"error::Error::%s$" % ctor)
        for c in cs:
            seen += 1
            cf = cmp_facts(b, c.bb)
            missing = [r for r in reqs if not has_cmp(cf, *r)]
            res.check(not missing, "R10.3", "guard|%s" % ctor, c.where(),
                      "%s guarded by %s" % (ctor, sorted(cf)), "%s is not guarded by %s; guards: %s" % (ctor, missing, guard_strs(b, c.bb)))
        if not cs:
            res.violation("R10.3", "guard|%s" % ctor, b.where(), "verify_num_args no longer reports %s" % ctor)
    res.floor("R10.3", "count-error constructors in verify_num_args", seen, 4)
    # every value-count constructor in the parser is called from verify_num_args or the documented attached-value path
    for ctor in ("too_few_values", "wrong_number_of_values"):
        for bb in fx.bodies(r"^clap_builder::parser::"):
            for c in bb.calls_to(r"error::Error::%s$" % ctor):
                res.check(bb.q in (b.q,) or "validator" in bb.q, "R10.3", "site|%s|%s" % (ctor, bb.q), c.where(),
                          "%s raised in %s" % (ctor, bb.q), "%s raised outside verify_num_args/validator" % ctor)

    # R10.4 suggestions
    dym = fx.body("suggestions::did_you_mean")
    ins = dym.calls_to(r"Vec::(insert|push)$")
    res.floor("R10.4", "candidate insertions in did_you_mean", len(ins), 1)
    for c in ins:
        e = expr(dym, c.args[-1], 8)
        ok = re.search(r"tuple\(.*,to_owned\((as_ref\()?next\(.*\)#Some\.0\)?\)\)$", e) is not None
        res.check(ok, "R10.4", "candidate-provenance|" + dym.q, c.where(), "inserted %s" % e,
                  "did_you_mean inserts a string not taken from the iterated candidates: %s" % e)
    allowed = [r"all_subcommand_names\(", r"keys\(get_keymap\(", r"^iter\(good_vals\)$", r"^longs$", r"get_possible_values", r"possible_vals"]
    n = 0
    for bb in fx.bodies(r"^clap_builder::"):
        for c in bb.calls_to(r"suggestions::did_you_mean(_flag)?$"):
            n += 1
            ai = 1 if c.callee_q.endswith("did_you_mean") else 2
            e = expr(bb, c.args[ai], 8)
            res.check(any(re.search(a, e) for a in allowed), "R10.4", "site|%s" % bb.q, c.where(),
                      "candidates = %s" % e, "did_you_mean candidates are not drawn from defined names: %s" % e)
    res.floor("R10.4", "did_you_mean call sites", n, 5)
    # good_vals of invalid_value come from the argument's possible values
    for bb in fx.bodies(r"^clap_builder::"):
        for c in bb.calls_to(r"error::Error::(invalid_value|empty_value)$"):
            if bb.q.startswith("clap_builder::error::"):
                continue
            gi = 2 if c.callee_q.endswith("invalid_value") else 1
            es = collection_sources(bb, c.args[gi], 10)     # iterator chain, or a Vec filled by a loop
            e = " + ".join(es)
            res.check(all(re.search(r"possible_val|get_possible_values|good_vals", x) is not None for x in es), "R10.4", "good-vals|%s" % bb.q, c.where(),
                      "good values = %s" % e, "invalid_value suggestions not drawn from possible values: %s" % e)


    # ---- R10.4d (shared with C08 R8.3) what a subcommand lookup may answer with
    from rules.c08 import inference_candidates
    inference_candidates(fx, res, "R10.4")

    # ---- R10.5 pending positional values are resolved per occurrence unless (same arg && multi-valued)
    pp = fx.body("clap_builder::parser::parser::Parser::parse")
    posarg = r"get\(get_keymap\(self\.cmd\),pos_counter\)#Some\.0"
    rps = [c for c in pp.calls_to(r"Parser::resolve_pending$") if any(re.match(r"^V1:get\(get_keymap\(self\.cmd\),pos_counter\)$", g) for g in guard_strs(pp, c.bb))
           and not has_bool(pp, c.bb, "T", r"^is_last_set\(")]
    cts = [c for c in pp.calls_to(r"Parser::check_terminator$") if re.search(posarg, expr(pp, c.args[1]))]
    res.floor("R10.5", "resolve_pending in the positional branch of parse", len(rps), 1)
    res.floor("R10.5", "check_terminator in the positional branch of parse", len(cts), 1)
    if rps and cts:
        R, CT = rps[0], cts[0]
        skip = CT.bb in pp.reachable(0, without_blocks=(R.bb,))
        mv = [c for c in pp.calls_to(r"Arg::is_multiple_values_set$") if re.search(posarg, expr(pp, c.args[0])) and pp.reaches(c.bb, CT.bb)]
        ne = [c for c in pp.calls_to(r"PartialEq(<[^>]*>)?>?::(ne|eq)$") if any(re.search(r"^pending_arg_id\(", expr(pp, a)) for a in c.args) and pp.reaches(c.bb, CT.bb)]
        okm = oke = False
        for c in mv:
            br = pp.call_branch(c)
            if br and CT.bb not in pp.reachable(0, without_edge=(br[0], br[1]), without_blocks=(R.bb,)):
                okm = True
        for c in ne:
            br = pp.call_branch(c)
            keep = 2 if c.callee_q.endswith("::ne") else 1   # the edge on which `pending == this arg`
            if br and CT.bb not in pp.reachable(0, without_edge=(br[0], br[keep]), without_blocks=(R.bb,)) and \
                    any(re.search(r"get_id\(" + posarg, expr(pp, a)) for a in c.args):
                oke = True
        res.check(skip and okm and oke, "R10.5", "pending-resolved-per-occurrence", R.where(),
                  "resolve_pending skipped only when pending_arg_id == arg.id && arg.is_multiple_values_set()",
                  "a positional token reaches check_terminator/push without resolve_pending under a condition other than (same pending arg && is_multiple_values_set): "
                  "skip-path exists=%s, requires multi-valued=%s, requires same arg=%s — values of separate occurrences are pooled and then rejected by the count check" % (skip, okm, oke))

    # ---- R10.6 hyphen-value shortcut of parse_short_arg agrees with the flag loop (first unknown char => not a flag cluster)
    ps = fx.body("clap_builder::parser::parser::Parser::parse_short_arg")
    quant = [c for c in ps.calls_to(r"Iterator::(any|all)$") if re.search(r"short_arg", expr(ps, c.args[0]))
             and any(tree_calls(cb, r"Command::contains_short$") for cb in closure_bodies(fx, c))]
    res.floor("R10.6", "quantified contains_short test over the short cluster", len(quant), 1)
    for c in quant:
        cb = closure_bodies(fx, c)[0]
        neg = expr(cb, 0).startswith("Not(")
        nm = c.callee_q.rsplit("::", 1)[1]
        # "some char is not a defined short"  ==  any(!contains)  ==  !all(contains)
        br = ps.call_branch(c)
        res.check((nm == "any" and neg) or (nm == "all" and not neg), "R10.6", "hyphen-shortcut-quantifier", c.where(),
                  "shortcut tests whether some character is not a defined short (%s over %s)" % (nm, expr(cb, 0)[:50]),
                  "the allow_hyphen_values shortcut tests `%s(%s)`: a cluster with one unknown character is no longer taken as a value although the flag loop rejects it at that character" % (nm, expr(cb, 0)[:60]))
    # the flag loop: NoMatchingArg is produced on the first character for which contains_short/find fails
    nm_ = [i for i, j, s_ in ps.stmts() if s_["k"] == "assign" and s_["rv"]["k"] == "agg" and s_["rv"].get("variant") == "NoMatchingArg"]
    res.check(bool(nm_), "R10.6", "flag-loop-rejects-unknown-char", ps.where(), "flag loop returns NoMatchingArg at an unknown character", "flag loop no longer produces NoMatchingArg")


    # ---- R10.4b the help hint names an existing flag / subcommand
    ghf = fx.body("clap_builder::error::format::get_help_flag")
    hints = [(i, s_) for i, j, s_ in ghf.stmts() if s_["k"] == "assign" and s_["place"] == 0 and s_["rv"]["k"] == "agg" and s_["rv"].get("variant") == "Some"]
    res.floor("R10.4", "hints returned by get_help_flag", len(hints), 3)
    for i, s_ in hints:
        v = expr(ghf, s_["rv"]["ops"][0])
        gl = guard_strs(ghf, i)
        if "'--help'" in v:
            ok = "F:is_disable_help_flag_set(cmd)" in gl
            why = "`--help` is suggested although the help flag may be disabled"
        elif "'help'" in v:
            ok = "T:has_subcommands(cmd)" in gl and "F:is_disable_help_subcommand_set(cmd)" in gl
            why = "the `help` subcommand is suggested without checking that it exists (has_subcommands && !disable_help_subcommand)"
        elif "get_user_help_flag(cmd)#Some.0" in v:
            ok = "V1:get_user_help_flag(cmd)" in gl
            why = "user help flag suggested without having found one"
        else:
            ok, why = False, "unrecognised hint %s" % v[:60]
        res.check(ok, "R10.4", "help-hint|" + ("--help" if "'--help'" in v else "help" if "'help'" in v else "user" if "get_user_help_flag" in v else "other"), "%s bb%d" % (ghf.where(), i),
                  "hint %s only when it exists" % v[:40], why + " (guards %s)" % gl)


    # ---- R10.7 the `also missing` display completion never counts a `last` positional: highest_index grows only on the !is_last_set edge
    vq = fx.body("clap_builder::parser::validator::Validator::validate_required")
    his = vq.locals_named("highest_index")
    res.floor("R10.7", "`highest_index` local in validate_required", len(his), 1)
    ups = [d for l in his for d in vq.def_sites(l) if not (isinstance(d[3], dict) and d[3]["k"] == "use" and op_int(d[3]["op"]) == 0)]
    res.floor("R10.7", "updates of highest_index", len(ups), 2)
    def guarded_or_identity(l, d, depth=0):
        """The update is on the !is_last_set edge, or it is a conditional value whose is_last_set branch hands back highest_index unchanged."""
        if any(re.match(r"^F:is_last_set\(", g) for g in guard_strs(vq, d[0])):
            return True
        rv = d[3]
        if depth < 3 and isinstance(rv, dict) and rv["k"] == "use" and isinstance(rv["op"].get("mv", rv["op"].get("cp")), int):
            src = rv["op"].get("mv", rv["op"].get("cp"))
            if src in his:
                return any(re.match(r"^T:is_last_set\(", g) for g in guard_strs(vq, d[0])) or depth > 0
            inner = vq.def_sites(src)
            return bool(inner) and all(guarded_or_identity(src, e, depth + 1) for e in inner)
        return False
    for d in ups:
        res.check(guarded_or_identity(None, d), "R10.7", "highest-index-ignores-last", "%s bb%d" % (vq.where(), d[0]),
                  "highest_index updated only for arguments that are not `last`", "highest_index also counts a missing `last` positional: optional positionals before it are reported as missing required arguments although no rule requires them")


    # ---- R10.4c suggestions are drawn from the command the error is about
    nis = 0
    for bb in fx.bodies(r"^clap_builder::"):
        for c in bb.calls_to(r"error::Error::invalid_subcommand$"):
            if bb.q.startswith("clap_builder::error::"):
                continue
            nis += 1
            about = expr(bb, c.args[0])
            cand = expr(bb, c.args[2], 10) if len(c.args) > 2 else ""
            m = re.search(r"all_subcommand_names\(([^()]*(?:\([^()]*\))*[^()]*)\)", cand)
            src = m.group(1) if m else None
            res.check(src is not None and src == about, "R10.4", "suggestions-from-same-command|" + bb.q.rsplit("::", 1)[1], c.where(), "candidates = subcommand names of the command the error is raised for (%s)" % about[:40],
                      "invalid_subcommand is raised for `%s` but its suggestions are drawn from `%s`: names that are not subcommands of that command can be suggested" % (about[:50], (src or cand)[:60]))
    res.floor("R10.4", "invalid_subcommand call sites", nis, 1)
