//! Expanded-AST facts: every `format_args!` node with its template and argument spans.
use rustc_ast as ast;
use rustc_ast::visit::{self, Visitor};
use rustc_middle::ty::TyCtxt;
use rustc_span::Span;

use crate::json::J;

struct V<'a, 'tcx> {
    tcx: TyCtxt<'tcx>,
    out: &'a mut Vec<J>,
}

fn span_j(tcx: TyCtxt<'_>, sp: Span) -> J {
    let sm = tcx.sess.source_map();
    let exp = sp.from_expansion();
    let sp2 = if exp { sp.source_callsite() } else { sp };
    let lo = sm.lookup_char_pos(sp2.lo());
    let hi = sm.lookup_char_pos(sp2.hi());
    let file = match &lo.file.name {
        rustc_span::FileName::Real(r) => match r.local_path() {
            Some(p) => p.to_string_lossy().to_string(),
            None => format!("{:?}", lo.file.name),
        },
        other => format!("{:?}", other),
    };
    J::Arr(vec![
        J::string(file),
        J::usize(lo.line),
        J::usize(lo.col.0 + 1),
        J::usize(hi.line),
        J::usize(hi.col.0 + 1),
        J::Bool(exp),
    ])
}

impl<'a, 'tcx, 'ast> Visitor<'ast> for V<'a, 'tcx> {
    fn visit_expr(&mut self, e: &'ast ast::Expr) {
        if let ast::ExprKind::FormatArgs(fa) = &e.kind {
            let mut tmpl = Vec::new();
            for p in &fa.template {
                match p {
                    ast::FormatArgsPiece::Literal(s) => tmpl.push(J::string(s.to_string())),
                    ast::FormatArgsPiece::Placeholder(ph) => {
                        let idx = match ph.argument.index {
                            Ok(i) => i as i128,
                            Err(_) => -1,
                        };
                        tmpl.push(J::obj(vec![
                            ("arg", J::Int(idx)),
                            ("trait", J::string(format!("{:?}", ph.format_trait))),
                        ]));
                    }
                }
            }
            let mut args = Vec::new();
            for a in fa.arguments.all_args() {
                args.push(span_j(self.tcx, a.expr.span));
            }
            // name of the outermost macro that produced this node (write!, format!, ...)
            let mac = if e.span.from_expansion() {
                let d = e.span.ctxt().outer_expn_data();
                match d.kind {
                    rustc_span::ExpnKind::Macro(_, name) => name.to_string(),
                    ref k => k.descr().to_string(),
                }
            } else {
                String::new()
            };
            self.out.push(J::obj(vec![
                ("span", span_j(self.tcx, e.span)),
                ("mac", J::string(mac)),
                ("template", J::Arr(tmpl)),
                ("args", J::Arr(args)),
            ]));
        }
        visit::walk_expr(self, e);
    }
}

pub fn dump_format_args(tcx: TyCtxt<'_>) -> Vec<J> {
    let mut out = Vec::new();
    let resolver = tcx.resolver_for_lowering().borrow();
    let krate: &ast::Crate = &resolver.1;
    let mut v = V { tcx, out: &mut out };
    visit::walk_crate(&mut v, krate);
    out
}
