//! clapfacts — rustc_private driver that dumps type-checked program facts as JSON.
//!
//! Used as RUSTC_WORKSPACE_WRAPPER: argv = [clapfacts, <rustc>, rustc-args...].
//! For every workspace crate compiled it writes ONE file
//!   $CLAPFACTS_OUT/<crate>-<stable_crate_id>.json
//! containing: defs table, MIR per body, ADTs, consts, FormatArgs nodes (expanded
//! AST), HIR match / cast / unsafe facts.  Nothing is executed; the compiler is
//! stopped after analysis.
#![feature(rustc_private)]
#![allow(rustc::internal)]

extern crate rustc_abi;
extern crate rustc_ast;
extern crate rustc_data_structures;
extern crate rustc_driver;
extern crate rustc_hir;
extern crate rustc_interface;
extern crate rustc_middle;
extern crate rustc_session;
extern crate rustc_span;

mod json;
mod mir_dump;
mod ast_dump;
mod hir_dump;

use rustc_driver::{Callbacks, Compilation};
use rustc_interface::interface::Compiler;
use rustc_middle::ty::TyCtxt;

use json::J;

struct Cb {
    out_dir: String,
    fmt: Vec<J>,
}

impl Callbacks for Cb {
    fn after_expansion<'tcx>(&mut self, _c: &Compiler, tcx: TyCtxt<'tcx>) -> Compilation {
        self.fmt = ast_dump::dump_format_args(tcx);
        Compilation::Continue
    }

    fn after_analysis<'tcx>(&mut self, _c: &Compiler, tcx: TyCtxt<'tcx>) -> Compilation {
        let krate = tcx.crate_name(rustc_hir::def_id::LOCAL_CRATE).to_string();
        if krate == "build_script_build" {
            return Compilation::Continue;
        }
        let mut cx = mir_dump::Cx::new(tcx);
        let bodies = cx.dump_bodies();
        let adts = cx.dump_adts();
        let consts = cx.dump_consts();
        let impls = cx.dump_impls();
        let (matches, casts, unsafes) = hir_dump::dump_hir(tcx, &mut cx);
        let defs = cx.defs_json();
        let mut feats: Vec<J> = Vec::new();
        for (name, val) in tcx.sess.config.iter() {
            if name.as_str() == "feature" {
                if let Some(v) = val {
                    feats.push(J::s(v.as_str()));
                }
            }
        }
        let is_test = tcx.sess.opts.test;
        let id = format!("{:x}", tcx.stable_crate_id(rustc_hir::def_id::LOCAL_CRATE).as_u64());
        let top = J::obj(vec![
            ("crate", J::s(&krate)),
            ("is_test", J::Bool(is_test)),
            ("features", J::Arr(feats)),
            ("defs", defs),
            ("bodies", J::Arr(bodies)),
            ("adts", J::Arr(adts)),
            ("consts", J::Arr(consts)),
            ("impls", J::Arr(impls)),
            ("fmt", J::Arr(std::mem::take(&mut self.fmt))),
            ("matches", J::Arr(matches)),
            ("casts", J::Arr(casts)),
            ("unsafes", J::Arr(unsafes)),
        ]);
        let mut s = String::with_capacity(1 << 22);
        top.write(&mut s);
        let path = format!(
            "{}/{}-{}{}.json",
            self.out_dir,
            krate,
            id,
            if is_test { "-test" } else { "" }
        );
        let tmp = format!("{}.tmp{}", path, std::process::id());
        std::fs::write(&tmp, s).expect("clapfacts: cannot write fact file");
        std::fs::rename(&tmp, &path).expect("clapfacts: cannot rename fact file");
        if std::env::var("CLAPFACTS_CODEGEN").is_ok() {
            Compilation::Continue
        } else {
            // metadata has to be produced for dependants: continue.
            Compilation::Continue
        }
    }
}

fn main() {
    let args: Vec<String> = std::env::args().collect();
    // argv[1] is the real rustc path (wrapper protocol)
    let mut rustc_args: Vec<String> = vec!["rustc".to_string()];
    rustc_args.extend(args.iter().skip(2).cloned());
    let out_dir = std::env::var("CLAPFACTS_OUT").unwrap_or_default();
    let passthrough = out_dir.is_empty()
        || rustc_args.iter().any(|a| a.starts_with("--print") || a == "-vV" || a == "-V" || a == "--version")
        || !rustc_args.iter().any(|a| a.ends_with(".rs"));
    if passthrough {
        struct Nop;
        impl Callbacks for Nop {}
        rustc_driver::run_compiler(&rustc_args, &mut Nop);
        return;
    }
    let mut cb = Cb { out_dir, fmt: Vec::new() };
    rustc_driver::run_compiler(&rustc_args, &mut cb);
}
