//! HIR facts: match expressions (arm patterns), `as` casts, unsafe blocks.
use rustc_hir as hir;
use rustc_hir::def::Res;
use rustc_hir::intravisit::{self, Visitor};
use rustc_middle::ty::{TyCtxt, TypeckResults};

use crate::json::J;
use crate::mir_dump::Cx;

struct V<'a, 'tcx> {
    tcx: TyCtxt<'tcx>,
    cx: &'a mut Cx<'tcx>,
    tr: &'tcx TypeckResults<'tcx>,
    owner: usize,
    matches: &'a mut Vec<J>,
    casts: &'a mut Vec<J>,
    unsafes: &'a mut Vec<J>,
}

impl<'a, 'tcx> V<'a, 'tcx> {
    fn qpath_s(&mut self, q: &hir::QPath<'tcx>, id: hir::HirId) -> String {
        match self.tr.qpath_res(q, id) {
            Res::Def(_, d) => self.cx.path_s(d),
            Res::SelfCtor(_) | Res::SelfTyAlias { .. } => "Self".to_string(),
            other => format!("{:?}", other),
        }
    }
    fn pat_s(&mut self, p: &hir::Pat<'tcx>) -> String {
        use hir::PatKind::*;
        match p.kind {
            Wild => "_".to_string(),
            Missing | Never | Err(_) => "?".to_string(),
            Binding(_, _, id, None) => format!("${}", id.name),
            Binding(_, _, id, Some(sub)) => format!("${}@{}", id.name, self.pat_s(sub)),
            Struct(ref q, fields, _) => {
                let mut s = self.qpath_s(q, p.hir_id);
                s.push('{');
                for (i, f) in fields.iter().enumerate() {
                    if i > 0 {
                        s.push(',');
                    }
                    s.push_str(&format!("{}:{}", f.ident.name, self.pat_s(f.pat)));
                }
                s.push('}');
                s
            }
            TupleStruct(ref q, subs, _) => {
                let mut s = self.qpath_s(q, p.hir_id);
                s.push('(');
                for (i, f) in subs.iter().enumerate() {
                    if i > 0 {
                        s.push(',');
                    }
                    s.push_str(&self.pat_s(f));
                }
                s.push(')');
                s
            }
            Or(ps) => ps.iter().map(|x| self.pat_s(x)).collect::<Vec<_>>().join("|"),
            Tuple(ps, _) => format!("({})", ps.iter().map(|x| self.pat_s(x)).collect::<Vec<_>>().join(",")),
            Box(x) | Deref(x) | Ref(x, _, _) => self.pat_s(x),
            Guard(x, _) => format!("{} if", self.pat_s(x)),
            Expr(pe) => match pe.kind {
                hir::PatExprKind::Path(ref q) => self.qpath_s(q, pe.hir_id),
                hir::PatExprKind::Lit { lit, negated } => {
                    format!("lit:{}{:?}", if negated { "-" } else { "" }, lit.node)
                }
            },
            Range(..) => "range".to_string(),
            Slice(..) => "slice".to_string(),
        }
    }
}

impl<'a, 'tcx> Visitor<'tcx> for V<'a, 'tcx> {
    fn visit_expr(&mut self, e: &'tcx hir::Expr<'tcx>) {
        match e.kind {
            hir::ExprKind::Match(scrut, arms, src) => {
                let st = self.tr.expr_ty_adjusted(scrut);
                let mut av = Vec::new();
                for a in arms {
                    av.push(J::obj(vec![
                        ("pat", J::string(self.pat_s(a.pat))),
                        ("guard", J::Bool(a.guard.is_some())),
                        ("span", self.cx.span_j(a.span)),
                        ("body_span", self.cx.span_j(a.body.span)),
                    ]));
                }
                self.matches.push(J::obj(vec![
                    ("owner", J::usize(self.owner)),
                    ("span", self.cx.span_j(e.span)),
                    ("src", J::string(format!("{:?}", src).split(['(', ' ', '{']).next().unwrap_or("").to_string())),
                    ("scrut_ty", J::string(self.cx.ty_s(st))),
                    ("arms", J::Arr(av)),
                ]));
            }
            hir::ExprKind::Cast(inner, _) => {
                let from = self.tr.expr_ty(inner);
                let to = self.tr.expr_ty(e);
                self.casts.push(J::obj(vec![
                    ("owner", J::usize(self.owner)),
                    ("span", self.cx.span_j(e.span)),
                    ("from", J::string(self.cx.ty_s(from))),
                    ("to", J::string(self.cx.ty_s(to))),
                ]));
            }
            hir::ExprKind::Block(b, _) => {
                if let hir::BlockCheckMode::UnsafeBlock(hir::UnsafeSource::UserProvided) = b.rules {
                    self.unsafes.push(J::obj(vec![
                        ("owner", J::usize(self.owner)),
                        ("span", self.cx.span_j(b.span)),
                    ]));
                }
            }
            _ => {}
        }
        intravisit::walk_expr(self, e);
    }
}

pub fn dump_hir<'tcx>(tcx: TyCtxt<'tcx>, cx: &mut Cx<'tcx>) -> (Vec<J>, Vec<J>, Vec<J>) {
    let mut matches = Vec::new();
    let mut casts = Vec::new();
    let mut unsafes = Vec::new();
    let owners: Vec<_> = tcx.hir_body_owners().collect();
    for ld in owners {
        let d = ld.to_def_id();
        if !matches!(
            tcx.def_kind(d),
            hir::def::DefKind::Fn | hir::def::DefKind::AssocFn | hir::def::DefKind::Closure
        ) {
            continue;
        }
        // closures are visited as part of their parent body; skip to avoid duplicates
        if matches!(tcx.def_kind(d), hir::def::DefKind::Closure) {
            continue;
        }
        let Some(body) = tcx.hir_maybe_body_owned_by(ld) else { continue };
        let tr = tcx.typeck(ld);
        let owner = cx.def(d);
        let mut v = V { tcx, cx, tr, owner, matches: &mut matches, casts: &mut casts, unsafes: &mut unsafes };
        v.visit_expr(body.value);
        let _ = v.tcx;
    }
    (matches, casts, unsafes)
}
