//! MIR / item facts.
use std::collections::HashMap;

use rustc_hir::def::DefKind;
use rustc_hir::def_id::{DefId, LOCAL_CRATE};
use rustc_middle::mir::{
    AggregateKind, AssertKind, BasicBlockData, Body, BorrowKind, Const as MirConst, Operand, Place,
    ProjectionElem, Rvalue, StatementKind, TerminatorKind, UnwindAction, VarDebugInfoContents,
};
use rustc_middle::ty::print::{with_crate_prefix, with_no_trimmed_paths, with_no_visible_paths, PrintTraitRefExt};
use rustc_middle::ty::{self, GenericArgKind, GenericArgsRef, Instance, Ty, TyCtxt, TypingEnv};
use rustc_span::Span;

use crate::json::J;

pub struct Cx<'tcx> {
    pub tcx: TyCtxt<'tcx>,
    def_ix: HashMap<DefId, usize>,
    defs: Vec<J>,
}

thread_local! { pub static KRATE: std::cell::RefCell<String> = std::cell::RefCell::new(String::new()); }

/// Print with full *definition* paths (no re-export/visible-path lookup, so the same item is
/// spelled identically from every crate); the local crate is spelled by its name instead of
/// `crate`, and the std facade crates `core`/`alloc` are spelled `std`.
fn np<F: FnOnce() -> String>(f: F) -> String {
    let s = with_no_visible_paths!(with_crate_prefix!(with_no_trimmed_paths!(f())));
    if !(s.contains("crate::") || s.contains("core::") || s.contains("alloc::")) {
        return s;
    }
    KRATE.with(|k| {
        let k = k.borrow();
        let mut out = String::with_capacity(s.len() + 16);
        let b = s.as_bytes();
        let mut i = 0;
        while i < b.len() {
            // start of a path: not inside an identifier and not a later segment (`a::core::b`)
            let boundary = i == 0 || !(b[i - 1].is_ascii_alphanumeric() || b[i - 1] == b'_' || b[i - 1] == b':');
            if boundary && s[i..].starts_with("crate::") {
                out.push_str(&k);
                out.push_str("::");
                i += 7;
            } else if boundary && s[i..].starts_with("core::") {
                out.push_str("std::");
                i += 6;
            } else if boundary && s[i..].starts_with("alloc::") {
                out.push_str("std::");
                i += 7;
            } else {
                let c = s[i..].chars().next().unwrap();
                out.push(c);
                i += c.len_utf8();
            }
        }
        out
    })
}

impl<'tcx> Cx<'tcx> {
    pub fn new(tcx: TyCtxt<'tcx>) -> Self {
        KRATE.with(|k| *k.borrow_mut() = tcx.crate_name(LOCAL_CRATE).to_string());
        Cx { tcx, def_ix: HashMap::new(), defs: Vec::new() }
    }

    pub fn ty_s(&self, t: Ty<'tcx>) -> String {
        np(|| format!("{}", t))
    }

    pub fn path_s(&self, d: DefId) -> String {
        np(|| self.tcx.def_path_str(d))
    }

    /// Relative file path + line/col of a span (call-site of the outermost expansion).
    pub fn span_j(&self, sp: Span) -> J {
        let sm = self.tcx.sess.source_map();
        let exp = sp.from_expansion();
        // outermost (user-written) macro of the expansion chain, e.g. `debug_assert` for
        // debug_assert! -> assert! -> panic!
        let mac = if exp {
            let mut name = None;
            for d in sp.macro_backtrace() {
                name = Some(match d.kind {
                    rustc_span::ExpnKind::Macro(_, n) => n.to_string(),
                    ref k => k.descr().to_string(),
                });
            }
            name
        } else {
            None
        };
        let sp2 = if exp { sp.source_callsite() } else { sp };
        let lo = sm.lookup_char_pos(sp2.lo());
        let hi = sm.lookup_char_pos(sp2.hi());
        let file = match &lo.file.name {
            rustc_span::FileName::Real(r) => match r.local_path() {
                Some(p) => p.to_string_lossy().to_string(),
                None => format!("{:?}", lo.file.name),
            },
            other => format!("{:?}", other),
        };
        let mut v = vec![
            J::string(file),
            J::usize(lo.line),
            J::usize(lo.col.0 + 1),
            J::usize(hi.line),
            J::usize(hi.col.0 + 1),
        ];
        if let Some(m) = mac {
            v.push(J::string(m));
        }
        J::Arr(v)
    }

    /// Intern a DefId into the defs table.
    pub fn def(&mut self, d: DefId) -> usize {
        if let Some(&i) = self.def_ix.get(&d) {
            return i;
        }
        let i = self.defs.len();
        self.def_ix.insert(d, i);
        self.defs.push(J::Null);
        let tcx = self.tcx;
        let kind = tcx.def_kind(d);
        let path = self.path_s(d);
        let krate = tcx.crate_name(d.krate).to_string();
        let name = tcx.opt_item_name(d).map(|s| s.to_string());
        let mut self_ty = J::Null;
        let mut self_adt = J::Null;
        let mut trait_ = J::Null;
        let mut parent = J::Null;
        let mut container = "none";
        match kind {
            DefKind::AssocFn | DefKind::AssocConst { .. } | DefKind::AssocTy => {
                let p = tcx.parent(d);
                match tcx.def_kind(p) {
                    DefKind::Impl { of_trait } => {
                        container = "impl";
                        let st = tcx.type_of(p).instantiate_identity().skip_norm_wip();
                        self_ty = J::string(self.ty_s(st));
                        if let ty::Adt(adt, _) = st.kind() {
                            self_adt = J::string(self.path_s(adt.did()));
                        }
                        if of_trait {
                            let tr = tcx.impl_trait_ref(p).instantiate_identity().skip_norm_wip();
                            trait_ = J::string(self.path_s(tr.def_id));
                        }
                    }
                    DefKind::Trait => {
                        container = "trait";
                        trait_ = J::string(self.path_s(p));
                    }
                    _ => {}
                }
            }
            DefKind::Closure => {
                let p = tcx.parent(d);
                let pi = self.def(p);
                parent = J::usize(pi);
            }
            DefKind::Variant | DefKind::Ctor(..) => {
                let p = tcx.parent(d);
                let pi = self.def(p);
                parent = J::usize(pi);
            }
            _ => {}
        }
        let (file_line, vis) = if d.is_local() {
            let sp = tcx.def_span(d);
            let v = match kind {
                DefKind::Fn | DefKind::AssocFn | DefKind::Struct | DefKind::Enum | DefKind::Trait => {
                    format!("{:?}", tcx.visibility(d))
                }
                _ => String::new(),
            };
            (self.span_j(sp), J::string(v))
        } else {
            (J::Null, J::Null)
        };
        self.defs[i] = J::obj(vec![
            ("path", J::string(path)),
            ("krate", J::string(krate)),
            ("name", J::opt_s(name)),
            ("kind", J::string(format!("{:?}", kind).split(['{', '(', ' ']).next().unwrap_or("").to_string())),
            ("container", J::s(container)),
            ("self_ty", self_ty),
            ("self_adt", self_adt),
            ("trait", trait_),
            ("parent", parent),
            ("span", file_line),
            ("vis", vis),
        ]);
        i
    }

    pub fn defs_json(&mut self) -> J {
        J::Arr(std::mem::take(&mut self.defs))
    }

    fn place_j(&mut self, body: &Body<'tcx>, p: &Place<'tcx>) -> J {
        let tcx = self.tcx;
        let mut proj: Vec<J> = Vec::new();
        for (base, elem) in p.iter_projections() {
            let e = match elem {
                ProjectionElem::Deref => J::s("*"),
                ProjectionElem::Field(f, _) => {
                    let bt = base.ty(body, tcx);
                    let mut s = format!(".{}", f.index());
                    if let ty::Adt(adt, _) = bt.ty.kind() {
                        let vi = bt.variant_index.unwrap_or(rustc_abi::FIRST_VARIANT);
                        if adt.variants().len() > vi.index() {
                            let v = adt.variant(vi);
                            if let Some(fd) = v.fields.get(f) {
                                s = format!(".{}@{}", fd.name, self.path_s(adt.did()));
                            }
                        }
                    }
                    J::string(s)
                }
                ProjectionElem::Index(l) => J::string(format!("[_{}]", l.index())),
                ProjectionElem::ConstantIndex { offset, from_end, .. } => {
                    J::string(format!("[c{}{}]", if from_end { "-" } else { "" }, offset))
                }
                ProjectionElem::Subslice { from, to, from_end } => {
                    J::string(format!("[{}..{}{}]", from, if from_end { "-" } else { "" }, to))
                }
                ProjectionElem::Downcast(name, vi) => J::string(format!(
                    "as#{}#{}",
                    name.map(|s| s.to_string()).unwrap_or_default(),
                    vi.index()
                )),
                ProjectionElem::OpaqueCast(_) => J::s("opaque"),
                ProjectionElem::UnwrapUnsafeBinder(_) => J::s("unbind"),
            };
            proj.push(e);
        }
        if proj.is_empty() {
            J::usize(p.local.index())
        } else {
            let mut v = vec![J::usize(p.local.index())];
            v.extend(proj);
            J::Arr(v)
        }
    }

    fn const_j(&mut self, body_def: DefId, c: &MirConst<'tcx>) -> J {
        let tcx = self.tcx;
        let t = c.ty();
        if let ty::FnDef(d, args) = t.kind() {
            let (ri, kind) = self.resolve(body_def, *d, args);
            let di = self.def(*d);
            return J::obj(vec![
                ("fn", J::usize(ri.unwrap_or(di))),
                ("decl", J::usize(di)),
                ("rk", J::s(kind)),
            ]);
        }
        let env = TypingEnv::post_analysis(tcx, body_def);
        if t.is_integral() || t.is_bool() || t.is_char() {
            if let Some(si) = c.try_eval_scalar_int(tcx, env) {
                let size = si.size();
                let v: i128 = if t.is_signed() {
                    si.to_int(size)
                } else {
                    si.to_uint(size) as i128
                };
                return J::obj(vec![("int", J::Int(v)), ("ty", J::string(self.ty_s(t)))]);
            }
        }
        let mut v = vec![("c", J::string(np(|| format!("{}", c)))), ("ty", J::string(self.ty_s(t)))];
        if let MirConst::Unevaluated(u, _) = c {
            if let Some(p) = u.promoted {
                v.push(("promoted", J::usize(p.index())));
            }
            // named or promoted constant: also print its evaluated value when not generic
            if !rustc_middle::ty::TypeVisitableExt::has_non_region_param(c) {
                let r = std::panic::catch_unwind(std::panic::AssertUnwindSafe(|| {
                    c.eval(tcx, env, rustc_span::DUMMY_SP)
                }));
                if let Ok(Ok(cv)) = r {
                    let ev = MirConst::Val(cv, t);
                    let r2 = std::panic::catch_unwind(std::panic::AssertUnwindSafe(|| np(|| format!("{}", ev))));
                    if let Ok(sv) = r2 {
                        v.push(("cv", J::string(sv)));
                    }
                }
            }
        }
        J::obj(v)
    }

    fn op_j(&mut self, body: &Body<'tcx>, body_def: DefId, o: &Operand<'tcx>) -> J {
        match o {
            Operand::Copy(p) => J::obj(vec![("cp", self.place_j(body, p))]),
            Operand::Move(p) => J::obj(vec![("mv", self.place_j(body, p))]),
            Operand::Constant(c) => self.const_j(body_def, &c.const_),
            _ => J::obj(vec![("c", J::s("runtime-checks")), ("ty", J::s("bool"))]),
        }
    }

    /// Resolve a callee to a concrete instance where possible.
    fn resolve(
        &mut self,
        body_def: DefId,
        d: DefId,
        args: GenericArgsRef<'tcx>,
    ) -> (Option<usize>, &'static str) {
        let tcx = self.tcx;
        let env = TypingEnv::post_analysis(tcx, body_def);
        let r = std::panic::catch_unwind(std::panic::AssertUnwindSafe(|| {
            Instance::try_resolve(tcx, env, d, args)
        }));
        match r {
            Ok(Ok(Some(inst))) => {
                let kind = match inst.def {
                    ty::InstanceKind::Item(_) => "item",
                    ty::InstanceKind::Virtual(..) => "virtual",
                    ty::InstanceKind::Intrinsic(_) => "intrinsic",
                    ty::InstanceKind::ClosureOnceShim { .. } => "closure_once",
                    ty::InstanceKind::FnPtrShim(..) => "fnptr_shim",
                    ty::InstanceKind::ReifyShim(..) => "reify",
                    ty::InstanceKind::DropGlue(..) => "drop_glue",
                    ty::InstanceKind::CloneShim(..) => "clone_shim",
                    _ => "other",
                };
                let rd = inst.def_id();
                (Some(self.def(rd)), kind)
            }
            Ok(Ok(None)) => (None, "unresolved"),
            _ => (None, "error"),
        }
    }

    fn generic_args_j(&mut self, args: GenericArgsRef<'tcx>) -> (J, J, J) {
        let mut tys = Vec::new();
        let mut closures = Vec::new();
        let mut fnitems = Vec::new();
        for a in args.iter() {
            if let GenericArgKind::Type(t) = a.kind() {
                tys.push(J::string(self.ty_s(t)));
                for inner in t.walk() {
                    if let GenericArgKind::Type(it) = inner.kind() {
                        match it.kind() {
                            ty::Closure(d, _) => {
                                let i = self.def(*d);
                                closures.push(J::usize(i));
                            }
                            ty::FnDef(d, _) => {
                                let i = self.def(*d);
                                fnitems.push(J::usize(i));
                            }
                            _ => {}
                        }
                    }
                }
            }
        }
        (J::Arr(tys), J::Arr(closures), J::Arr(fnitems))
    }

    fn rvalue_j(&mut self, body: &Body<'tcx>, bd: DefId, rv: &Rvalue<'tcx>) -> J {
        match rv {
            Rvalue::Use(o, _) => J::obj(vec![("k", J::s("use")), ("op", self.op_j(body, bd, o))]),
            Rvalue::Repeat(o, _) => J::obj(vec![("k", J::s("repeat")), ("op", self.op_j(body, bd, o))]),
            Rvalue::Ref(_, bk, p) => J::obj(vec![
                ("k", J::s("ref")),
                ("mut", J::Bool(matches!(bk, BorrowKind::Mut { .. }))),
                ("place", self.place_j(body, p)),
            ]),
            Rvalue::RawPtr(_, p) => J::obj(vec![("k", J::s("rawptr")), ("place", self.place_j(body, p))]),
            Rvalue::Cast(ck, o, t) => J::obj(vec![
                ("k", J::s("cast")),
                ("ck", J::string(format!("{:?}", ck).split(['(', ' ']).next().unwrap_or("").to_string())),
                ("op", self.op_j(body, bd, o)),
                ("from", J::string(self.ty_s(o.ty(body, self.tcx)))),
                ("ty", J::string(self.ty_s(*t))),
            ]),
            Rvalue::BinaryOp(op, ab) => J::obj(vec![
                ("k", J::s("binop")),
                ("op", J::string(format!("{:?}", op))),
                ("a", self.op_j(body, bd, &ab.0)),
                ("b", self.op_j(body, bd, &ab.1)),
                ("ty", J::string(self.ty_s(ab.0.ty(body, self.tcx)))),
            ]),
            Rvalue::UnaryOp(op, o) => J::obj(vec![
                ("k", J::s("unop")),
                ("op", J::string(format!("{:?}", op))),
                ("a", self.op_j(body, bd, o)),
            ]),
            Rvalue::Discriminant(p) => {
                let t = p.ty(body, self.tcx).ty;
                J::obj(vec![
                    ("k", J::s("discr")),
                    ("place", self.place_j(body, p)),
                    ("ty", J::string(self.ty_s(t))),
                ])
            }
            Rvalue::Aggregate(ak, ops) => {
                let mut v = vec![("k", J::s("agg"))];
                match &**ak {
                    AggregateKind::Array(_) => v.push(("ak", J::s("array"))),
                    AggregateKind::Tuple => v.push(("ak", J::s("tuple"))),
                    AggregateKind::Adt(d, vi, _, _, _) => {
                        v.push(("ak", J::s("adt")));
                        v.push(("adt", J::string(self.path_s(*d))));
                        let adt = self.tcx.adt_def(*d);
                        let var = adt.variant(*vi);
                        v.push(("variant", J::string(var.name.to_string())));
                        v.push(("vi", J::usize(vi.index())));
                        v.push((
                            "fields",
                            J::Arr(var.fields.iter().map(|f| J::string(f.name.to_string())).collect()),
                        ));
                    }
                    AggregateKind::Closure(d, _) => {
                        v.push(("ak", J::s("closure")));
                        let i = self.def(*d);
                        v.push(("def", J::usize(i)));
                    }
                    AggregateKind::Coroutine(..) | AggregateKind::CoroutineClosure(..) => {
                        v.push(("ak", J::s("coroutine")))
                    }
                    AggregateKind::RawPtr(..) => v.push(("ak", J::s("rawptr"))),
                }
                v.push(("ops", J::Arr(ops.iter().map(|o| self.op_j(body, bd, o)).collect())));
                J::obj(v)
            }
            Rvalue::CopyForDeref(p) => J::obj(vec![
                ("k", J::s("use")),
                ("op", J::obj(vec![("cp", self.place_j(body, p))])),
            ]),
            Rvalue::ThreadLocalRef(d) => {
                J::obj(vec![("k", J::s("tls")), ("def", J::string(self.path_s(*d)))])
            }
            Rvalue::WrapUnsafeBinder(o, _) => {
                J::obj(vec![("k", J::s("use")), ("op", self.op_j(body, bd, o))])
            }
        }
    }

    fn block_j(&mut self, body: &Body<'tcx>, bd: DefId, b: &BasicBlockData<'tcx>) -> J {
        let mut stmts = Vec::new();
        for s in &b.statements {
            match &s.kind {
                StatementKind::Assign(pr) => {
                    let (p, rv) = &**pr;
                    stmts.push(J::obj(vec![
                        ("k", J::s("assign")),
                        ("place", self.place_j(body, p)),
                        ("rv", self.rvalue_j(body, bd, rv)),
                        ("sp", self.span_j(s.source_info.span)),
                    ]));
                }
                StatementKind::SetDiscriminant { place, variant_index } => {
                    stmts.push(J::obj(vec![
                        ("k", J::s("setdiscr")),
                        ("place", self.place_j(body, place)),
                        ("vi", J::usize(variant_index.index())),
                        ("sp", self.span_j(s.source_info.span)),
                    ]));
                }
                _ => {}
            }
        }
        let term = b.terminator();
        let sp = self.span_j(term.source_info.span);
        let uw = |u: &UnwindAction| match u {
            UnwindAction::Cleanup(bb) => J::usize(bb.index()),
            _ => J::Null,
        };
        let t = match &term.kind {
            TerminatorKind::Goto { target } => {
                J::obj(vec![("k", J::s("goto")), ("target", J::usize(target.index()))])
            }
            TerminatorKind::SwitchInt { discr, targets } => {
                let mut ts = Vec::new();
                for (v, bb) in targets.iter() {
                    ts.push(J::Arr(vec![J::Int(v as i128), J::usize(bb.index())]));
                }
                J::obj(vec![
                    ("k", J::s("switch")),
                    ("op", self.op_j(body, bd, discr)),
                    ("ty", J::string(self.ty_s(discr.ty(body, self.tcx)))),
                    ("targets", J::Arr(ts)),
                    ("otherwise", J::usize(targets.otherwise().index())),
                    ("sp", sp),
                ])
            }
            TerminatorKind::Return => J::obj(vec![("k", J::s("return")), ("sp", sp)]),
            TerminatorKind::Unreachable => J::obj(vec![("k", J::s("unreachable")), ("sp", sp)]),
            TerminatorKind::UnwindResume => J::obj(vec![("k", J::s("resume"))]),
            TerminatorKind::UnwindTerminate(_) => J::obj(vec![("k", J::s("terminate"))]),
            TerminatorKind::Drop { place, target, unwind, .. } => J::obj(vec![
                ("k", J::s("drop")),
                ("place", self.place_j(body, place)),
                ("target", J::usize(target.index())),
                ("unwind", uw(unwind)),
            ]),
            TerminatorKind::Call { func, args, destination, target, unwind, fn_span, .. } => {
                let mut v = vec![("k", J::s("call"))];
                if let Some((d, ga)) = func.const_fn_def() {
                    let di = self.def(d);
                    let (ri, rk) = self.resolve(bd, d, ga);
                    v.push(("decl", J::usize(di)));
                    v.push(("callee", J::usize(ri.unwrap_or(di))));
                    v.push(("rk", J::s(rk)));
                    let (tys, cl, fi) = self.generic_args_j(ga);
                    v.push(("targs", tys));
                    v.push(("closures", cl));
                    v.push(("fnitems", fi));
                } else {
                    v.push(("callee", J::Null));
                    v.push(("rk", J::s("indirect")));
                    v.push(("func", self.op_j(body, bd, func)));
                    v.push(("functy", J::string(self.ty_s(func.ty(body, self.tcx)))));
                }
                v.push(("args", J::Arr(args.iter().map(|a| self.op_j(body, bd, &a.node)).collect())));
                v.push(("argsp", J::Arr(args.iter().map(|a| self.span_j(a.span)).collect())));
                v.push(("dest", self.place_j(body, destination)));
                v.push(("target", target.map(|t| J::usize(t.index())).unwrap_or(J::Null)));
                v.push(("unwind", uw(unwind)));
                v.push(("sp", sp));
                v.push(("fnsp", self.span_j(*fn_span)));
                J::obj(v)
            }
            TerminatorKind::TailCall { .. } => J::obj(vec![("k", J::s("tailcall")), ("sp", sp)]),
            TerminatorKind::Assert { cond, expected, msg, target, unwind } => {
                let mut v = vec![
                    ("k", J::s("assert")),
                    ("cond", self.op_j(body, bd, cond)),
                    ("expected", J::Bool(*expected)),
                    ("target", J::usize(target.index())),
                    ("unwind", uw(unwind)),
                    ("sp", sp),
                ];
                match &**msg {
                    AssertKind::Overflow(op, a, b) => {
                        v.push(("msg", J::string(format!("Overflow({:?})", op))));
                        v.push(("a", self.op_j(body, bd, a)));
                        v.push(("b", self.op_j(body, bd, b)));
                        v.push(("ty", J::string(self.ty_s(a.ty(body, self.tcx)))));
                    }
                    AssertKind::BoundsCheck { len, index } => {
                        v.push(("msg", J::s("BoundsCheck")));
                        v.push(("a", self.op_j(body, bd, len)));
                        v.push(("b", self.op_j(body, bd, index)));
                    }
                    AssertKind::OverflowNeg(a) => {
                        v.push(("msg", J::s("OverflowNeg")));
                        v.push(("a", self.op_j(body, bd, a)));
                    }
                    AssertKind::DivisionByZero(a) => {
                        v.push(("msg", J::s("DivisionByZero")));
                        v.push(("a", self.op_j(body, bd, a)));
                    }
                    AssertKind::RemainderByZero(a) => {
                        v.push(("msg", J::s("RemainderByZero")));
                        v.push(("a", self.op_j(body, bd, a)));
                    }
                    other => {
                        let s = format!("{:?}", other);
                        v.push(("msg", J::string(s.split(['(', ' ', '{']).next().unwrap_or("").to_string())));
                    }
                }
                J::obj(v)
            }
            TerminatorKind::FalseEdge { real_target, .. } => {
                J::obj(vec![("k", J::s("goto")), ("target", J::usize(real_target.index()))])
            }
            TerminatorKind::FalseUnwind { real_target, .. } => {
                J::obj(vec![("k", J::s("goto")), ("target", J::usize(real_target.index()))])
            }
            TerminatorKind::Yield { .. } => J::obj(vec![("k", J::s("yield"))]),
            TerminatorKind::CoroutineDrop => J::obj(vec![("k", J::s("coroutine_drop"))]),
            TerminatorKind::InlineAsm { .. } => J::obj(vec![("k", J::s("asm"))]),
        };
        J::obj(vec![
            ("cleanup", J::Bool(b.is_cleanup)),
            ("stmts", J::Arr(stmts)),
            ("term", t),
        ])
    }

    pub fn dump_bodies(&mut self) -> Vec<J> {
        let tcx = self.tcx;
        let mut out = Vec::new();
        let owners: Vec<_> = tcx.hir_body_owners().collect();
        for ld in owners {
            let d = ld.to_def_id();
            let kind = tcx.def_kind(d);
            if !matches!(kind, DefKind::Fn | DefKind::AssocFn | DefKind::Closure) {
                continue;
            }
            if tcx.is_constructor(d) {
                continue;
            }
            let body: &Body<'tcx> = tcx.optimized_mir(d);
            let di = self.def(d);
            let mut names: HashMap<usize, String> = HashMap::new();
            let mut upvars: Vec<J> = Vec::new();
            for vdi in &body.var_debug_info {
                if let VarDebugInfoContents::Place(p) = &vdi.value {
                    if p.projection.is_empty() {
                        names.insert(p.local.index(), vdi.name.to_string());
                    } else {
                        upvars.push(J::Arr(vec![J::string(vdi.name.to_string()), self.place_j(body, p)]));
                    }
                }
            }
            let mut locals = Vec::new();
            for (l, decl) in body.local_decls.iter_enumerated() {
                let n = names.get(&l.index()).cloned();
                locals.push(J::Arr(vec![J::string(self.ty_s(decl.ty)), J::opt_s(n)]));
            }
            let mut blocks = Vec::new();
            for b in body.basic_blocks.iter() {
                blocks.push(self.block_j(body, d, b));
            }
            let mut promoted = Vec::new();
            for pb in tcx.promoted_mir(d).iter() {
                let mut pblocks = Vec::new();
                for b in pb.basic_blocks.iter() {
                    pblocks.push(self.block_j(pb, d, b));
                }
                promoted.push(J::Arr(pblocks));
            }
            out.push(J::obj(vec![
                ("def", J::usize(di)),
                ("promoted", J::Arr(promoted)),
                ("argc", J::usize(body.arg_count)),
                ("span", self.span_j(body.span)),
                ("locals", J::Arr(locals)),
                ("upvars", J::Arr(upvars)),
                ("blocks", J::Arr(blocks)),
            ]));
        }
        out
    }

    pub fn dump_adts(&mut self) -> Vec<J> {
        let tcx = self.tcx;
        let mut out = Vec::new();
        for id in tcx.hir_free_items() {
            let d = id.owner_id.to_def_id();
            let kind = tcx.def_kind(d);
            if !matches!(kind, DefKind::Struct | DefKind::Enum) {
                continue;
            }
            let adt = tcx.adt_def(d);
            let mut variants = Vec::new();
            for (vi, v) in adt.variants().iter_enumerated() {
                let discr = if adt.is_enum() {
                    J::Int(adt.discriminant_for_variant(tcx, vi).val as i128)
                } else {
                    J::Null
                };
                let fields: Vec<J> = v
                    .fields
                    .iter()
                    .map(|f| {
                        let ft = tcx.type_of(f.did).instantiate_identity().skip_norm_wip();
                        J::Arr(vec![J::string(f.name.to_string()), J::string(self.ty_s(ft)), J::string(format!("{:?}", f.vis))])
                    })
                    .collect();
                variants.push(J::obj(vec![
                    ("name", J::string(v.name.to_string())),
                    ("discr", discr),
                    ("fields", J::Arr(fields)),
                ]));
            }
            out.push(J::obj(vec![
                ("path", J::string(self.path_s(d))),
                ("kind", J::s(if adt.is_enum() { "enum" } else { "struct" })),
                ("vis", J::string(format!("{:?}", tcx.visibility(d)))),
                ("span", self.span_j(tcx.def_span(d))),
                ("variants", J::Arr(variants)),
            ]));
        }
        out
    }

    pub fn dump_consts(&mut self) -> Vec<J> {
        let tcx = self.tcx;
        let mut out = Vec::new();
        for ld in tcx.hir_body_owners() {
            let d = ld.to_def_id();
            let kind = tcx.def_kind(d);
            let is_const = matches!(kind, DefKind::Const { .. } | DefKind::AssocConst { .. });
            let is_static = matches!(kind, DefKind::Static { .. });
            if !is_const && !is_static {
                continue;
            }
            let t = tcx.type_of(d).instantiate_identity().skip_norm_wip();
            let ts = self.ty_s(t);
            // only evaluate simple types
            let simple = t.is_integral()
                || t.is_bool()
                || t.is_char()
                || ts == "&str"
                || ts.starts_with("[&str;")
                || ts.starts_with("&[&str")
                || ts.starts_with("&'static str")
                || ts.starts_with("[&'static str;")
                || ts.starts_with("&[&'static str")
                || ts.starts_with("&'static [&'static str");
            let mut val = J::Null;
            if simple && is_const && !tcx.generics_of(d).requires_monomorphization(tcx) {
                let r = std::panic::catch_unwind(std::panic::AssertUnwindSafe(|| {
                    tcx.const_eval_poly(d)
                }));
                if let Ok(Ok(cv)) = r {
                    let c = MirConst::Val(cv, t);
                    val = J::string(np(|| format!("{}", c)));
                }
            }
            out.push(J::obj(vec![
                ("path", J::string(self.path_s(d))),
                ("ty", J::string(ts)),
                ("val", val),
                ("span", self.span_j(tcx.def_span(d))),
            ]));
        }
        out
    }

    pub fn dump_impls(&mut self) -> Vec<J> {
        let tcx = self.tcx;
        let mut out = Vec::new();
        for id in tcx.hir_free_items() {
            let d = id.owner_id.to_def_id();
            if let DefKind::Impl { of_trait } = tcx.def_kind(d) {
                let st = tcx.type_of(d).instantiate_identity().skip_norm_wip();
                let tr = if of_trait {
                    let tr = tcx.impl_trait_ref(d).instantiate_identity().skip_norm_wip();
                    J::string(np(|| format!("{}", tr.print_only_trait_path())))
                } else {
                    J::Null
                };
                let mut items = Vec::new();
                for it in tcx.associated_items(d).in_definition_order() {
                    let mut o = vec![
                        ("name", J::string(it.name().to_string())),
                        ("kind", J::string(format!("{:?}", it.kind).split(['{', '(', ' ']).next().unwrap_or("").to_string())),
                    ];
                    if matches!(tcx.def_kind(it.def_id), DefKind::AssocTy) {
                        let t = tcx.type_of(it.def_id).instantiate_identity().skip_norm_wip();
                        o.push(("ty", J::string(self.ty_s(t))));
                    }
                    items.push(J::obj(o));
                }
                out.push(J::obj(vec![
                    ("self_ty", J::string(self.ty_s(st))),
                    ("trait", tr),
                    ("span", self.span_j(tcx.def_span(d))),
                    ("items", J::Arr(items)),
                ]));
            }
        }
        out
    }
}

#[allow(dead_code)]
pub fn crate_name(tcx: TyCtxt<'_>) -> String {
    tcx.crate_name(LOCAL_CRATE).to_string()
}
