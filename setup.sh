#!/bin/bash
# Build the fact extractor (offline, nightly toolchain that is pre-installed).
set -euo pipefail
cd "$(dirname "$0")/driver"
CARGO_NET_OFFLINE=true cargo +nightly build --offline 2>&1 | tail -3
test -x target/debug/clapfacts
echo "setup ok"
